"""C16 — training losses are the stated policy-gradient surrogates, with their gradients.

Targets (called trainer-free, see DESIGN 2.5):
  rl4co.models.rl.reinforce.reinforce.REINFORCE.shared_step / calculate_loss with every bundled baseline
  (rl4co.models.rl.reinforce.baselines), rl4co.models.rl.a2c.a2c.A2C, rl4co.models.zoo.pomo.model.POMO,
  rl4co.models.zoo.symnco.model.SymNCO (+ symnco.losses), rl4co.models.rl.ppo.ppo.PPO.shared_step,
  rl4co.models.rl.ppo.stepwise_ppo.StepwisePPO (through zoo.l2d.L2DPPOModel on FJSP/JSSP) and
  rl4co.models.rl.ppo.n_step_ppo.n_step_PPO (through zoo DACT / NeuOpt / N2S on tsp_kopt / pdp_ruin_repair); the
  executors and formulas of the last two live in vf/c16_ppo_variants.py.

  Round 3b: zoo models with their own loss / rollout layout (MDAM, PolyNet, MatNet, MVMoE, HAM, PointerNetwork,
  L2DModel: vf/c16_zoo_loss.py, sub `zoo_loss`); the library default baseline="rollout" (WarmupBaseline around a
  RolloutBaseline) consulted through eval() in all three warm-up phases (sub `rollout_eval`); critic=None routes of
  A2C / PPO / AMPPO; a float64 slice; second shared_step on one PPO / n_step_PPO model; validation steps and skipped
  epoch callbacks between the train steps of a stateful baseline.

Oracle: the surrogate written from the property / docstrings and evaluated on the *same* rollout tensors
(reward, log-likelihood with its graph, captured from the policy's forward with a forward hook):

  REINFORCE / A2C / POMO      L = -mean((R - b) * ll) + L_b
      b recomputed by an independent baseline model: 0 | batch mean | python-float EMA
      v <- beta*v + (1-beta)*mean(R) (first call v = mean(R)) | critic forward (L_b = mean((v-R)^2)) |
      supplied `extra` | greedy rollout of the frozen baseline policy | convex warm-up combination
      alpha*b_inner + (1-alpha)*b_ema (same for the losses) | per-instance mean over the starts.
  SymNCO                      L = L_ps + beta*L_ss + alpha*L_inv, L_ps / L_ss the same formula with the mean taken over
      axis 1 / axis -1 of the library's own [batch, ., .] regrouping (explicit index arithmetic here).
  PPO (per inner step)        L = -mean(min(rho*A, clip(rho,1-eps,1+eps)*A)) + vf_lambda*Huber(V,R) - entropy_lambda*mean(H)
      rho = exp(sum_t ll_t - ll_old), A = R - V.detach(), optionally (A-mean A)/(std A + 1e-8)   [ppo.py]
      (also on 40-60 node instances, where ll_old ~ -log(n!) < -87 and exp(ll) alone underflows in float32)
  StepwisePPO (per mini-batch of buffered transitions)
                              L = -mean(min(rho*A, clip(rho)*A)) + vf_lambda*mean((V-r)^2) - entropy_lambda*mean(H)
      rho = exp(logp(a|s) - logp_old), A = r - V(s).detach(), r = stored step reward (/ int reward_scale); logp and H
      are also recomputed in float64 from the actor's captured logits / mask / stored action   [stepwise_ppo.py]
  n_step_PPO (per segment of n_step env steps, inner epoch k)
                              L = -mean(min(rho*A, clip(rho)*A)) + vf_lambda*L_V            (no entropy coefficient)
      G_i = r_i + gamma*G_{i+1}, G_n = V(s_n).detach(); rho = exp(ll - ll_old.detach()); A = G - V.detach(), optionally
      standardised; L_V = mean((V-G)^2) (k = 0), mean(max((V-G)^2, (V_old + clip(V-V_old, +-eps) - G)^2)) (k > 0);
      r_i = decrease of the best-so-far cost, states of re-evaluation / bootstrap tied to the rollout [n_step_ppo.py]

Asserted: (1) loss values equal (float64 reference, tolerance 2e-6 * sum of absolute term magnitudes; widened by
the conditioning cond = max|adv|/std for the running-moment reward scalers (2(1+cond) + eps*(1+cond)^2/2e-6, cases
with cond > 200 excluded) and for PPO's standardised advantages (2e-6 + 8 eps (1+cond)));
(2) autograd.grad(loss, params) equals the gradient of the reference surrogate with R and b detached
(per parameter: ||dg|| <= 2e-5*max(||g||,||g_ref||) + 4e-6*||g_all|| + measured float32 resolution, see ulp_noise);
(3) reward / baseline value carry no gradient, critic parameters receive gradient from L_b only (with a critic
that *shares* the policy encoder the policy gradient changes as well if the value is not detached);
(4) shared-baseline advantages sum to 0 per instance and every reward in a group is the objective of a rollout of
that instance (tour-length oracle); (5) PPO: rho == 1 before the first optimiser step (256 ulp of 1+|ll|, ~3e-5 per
unit of log-likelihood: float32 noise between the batched sampling pass and the mini-batch evaluation pass; the
design's nominal 1e-5 is exceeded by rounding alone), number of inner steps = ppo_epochs * #mini-batches.
The same five assertions hold for the two PPO variants: StepwisePPO rho == 1 on every inner step before the first
parameter change of *each* update (policy_old is re-synchronised after an update; a mini-batch whose float32 evaluation
error, measured against a float64 twin of the policy, exceeds a quarter of the tolerance is excluded: instance
normalisation over 2 machines amplifies rounding by up to 1/sqrt(1e-5)); n_step_PPO rho == 1 in inner epoch 0 and, with
dropout off and unchanged parameters, on every re-evaluation of the stored states/actions.  For both, the gradient
resolution measurement perturbs the value target as well as the advantages (last-bit differences of V - target are
amplified by the backward pass through the normalisation layers).

Sub-check `rollout_eval` asserts the documented *greedy* rollout baseline through RolloutBaseline.eval; on the tree
this was written against eval() runs the frozen policy with phase="train" (sampling) -> signature
`baseline_value|rollout_eval_not_greedy` (genuine-defect candidate, kept; everything else in that sub goes on with
the value the library used once the signature is listed in known_findings.json).

Observed while writing, outside the asserted domain (not alarmed on): REINFORCE.shared_step hands the *finished* td
to baseline.eval, so RolloutBaseline without `extra` dies in post_decoder_hook ("all environments were done");
get_reinforce_baseline("warmup", baseline=<name>) raises TypeError (baseline passed twice); PPO mini_batch_size
fraction with int(B*f) == 0 -> DataLoader ValueError, and normalize_adv with a 1-row (last) mini-batch -> NaN loss;
SymNCO regroups (n_start, n_aug) against the (s a b) layout, so for num_starts != num_augment the L_ps/L_ss groups mix
starts and augmentations of one instance (still per-instance, hence unbiased); invariance_loss is returned with a
positive sign (paper: L_inv = -cos-similarity) and regrouped (b a) (note O1).
PPO variants: StepwisePPO.shared_step leaves `out` unbound (UnboundLocalError) whenever batch_idx % update_timestep != 0
(only update_timestep=1 is used here); mini_batch_size > #buffered rows -> torchrl sampler ValueError; its returned
"loss" is the stack of all inner losses, not a scalar; rows of already finished instances keep entering the buffer until
the whole batch is done.  rl4co.models.nn.mlp.MLP keeps its nn.Dropout layers in a plain list, so the dropout hard-coded
in the DACT decoder / improvement critics (p 0.05 / 0.01 / 0.001) is invisible to .modules() and stays active under
.eval(); with it the PPO ratio of a re-evaluation differs from 1 by up to ~30 % with unchanged parameters.  n_step_PPO
recomputes the bootstrap value V(s_n) in every inner epoch with the updated critic; it has no entropy term.
"""
import copy
import logging
import math
import os

import hypothesis.strategies as st
import torch

from .. import c16_ppo_variants as _ppov
from .. import c16_zoo_loss as _zoo
from ..runner import HarnessError, Sub

PROPERTY = "C16"
RULE = (
    "cases = (env tsp/cvrp n 4-8, batch B 2-8, AttentionModelPolicy embed 16/32, 1-2 layers, 2/4 heads, "
    "batch/instance/layer normalisation, no dropout, weights/instances/sampling seeded from the case, parameters "
    "multiplied by a spread factor) x algorithm config: REINFORCE baselines no/mean/exponential(beta)/critic (own or "
    "policy-shared encoder)/rollout via extra/warmup(inner, n_epochs, epoch callbacks)/shared, reward_scale "
    "None/int/'norm'/'scale', 1-4 successive steps on one model; POMO num_starts 2-6/None; SymNCO num_augment 2-4, "
    "num_starts 0/2-4, alpha/beta drawn; A2C; PPO ppo_epochs 1-2, minibatch full/fraction/int, normalize_adv, "
    "entropy_lambda 0/0.1, vf_lambda, clip_range drawn, no-op or perturbing fake optimiser; RolloutBaseline.eval. "
    "stepwise_ppo: FJSP/JSSP 2-4 jobs x 2-3 machines (1-3 ops per job, one2one or free machine map, processing times "
    "<= 5/20/99), B 2-6, L2DPolicy4PPO embed 16/32, 1-2 HGNN layers, instance/layer normalisation, mini_batch_size "
    "between a quarter of and all guaranteed buffer rows, ppo_epochs 1-2, clip/vf_lambda/entropy_lambda "
    "(0/0.01/0.1)/max_grad_norm/reward_scale None|int|norm|scale drawn, 1-2 successive updates on one model. nstep_ppo: DACT "
    "(tsp_kopt k_max 2) / NeuOpt (k_max 3-4) n 5-8, N2S (pdp_ruin_repair) n 4/6/8, B 2-6, embed 16/32, 1-2 layers, "
    "1/2/4 heads, layer/instance/batch normalisation, n_step 1-3, T_train = 1-2 segments, ppo_epochs 1-3, gamma "
    "0.5..1, normalize_adv, curriculum steps 0-2 / CL_best, bundled dropout off (3/4) or on. "
    "Round 3b: float64 slice of the reinforce sub (policy, critic, instances in double; tolerances 1e-11 / 1e-9); "
    "validation/test steps (eval mode, no_grad) and skipped epoch callbacks between the train steps of one model; "
    "rollout_eval: baseline='rollout' = WarmupBaseline(RolloutBaseline) through eval() with n_epochs 1-4, 0-2 epoch "
    "callbacks and parameter drift before each of 1-3 steps (alpha 0 / interior / 1, challenger accepted or not); "
    "zoo_loss (vf/c16_zoo_loss.py): MDAM [batch, paths], PolyNet (Poppy mask, k 2-4), MatNet/atsp, MVMoE_POMO, MVMoE_AM, "
    "HAM/pdp, PointerNetwork, L2DModel/fjsp|jssp with baselines no/mean/exponential/extra, embed 32; A2C / PPO / AMPPO "
    "with critic=None + critic_kwargs; PPO mini_batch_size fallbacks (1.5, -0.5, 0.0, 0, -3); second shared_step on one "
    "PPO / n_step_PPO model; StepwisePPO reward_scale 'norm'|'scale'; SymNCO num_augment=1 / dihedral8 / feats. "
    "PPO large-instance class (1 case in 16 of the sub ppo on average, plus the sub ppo_large = 24 such cases in every "
    "quick run): tsp / cvrp with 40-60 nodes, embed 16, 1 layer, B 2-4, one mini-batch, "
    "one inner epoch, spread 1.0: the old log-likelihood of a sampled tour is about -log(n!) = -100..-180, "
    "below the float32 exp() range (-87.3 subnormal, -103.3 zero); same assertions as every PPO case (rho == 1, loss "
    "value, gradient against the log-space reference rho = exp(ll_new - ll_old)); events large_instance|ll<-87 (all "
    "rows below -87), |some_ll<-87, |ll>=-87, |env=. "
    "Non-trivial = B >= 3 with non-constant rewards (and, for stateful baselines exponential/mean/warmup/scalers, "
    ">= 2 successive steps); stepwise_ppo: some mini-batch of >= 3 rows with non-constant step rewards; nstep_ppo: "
    "some inner step with n_step*B >= 3 rows and non-constant n-step returns; distinct = distinct case hash."
)
ASSUMPTIONS = [
    "policy has no dropout / stochastic layers (verified per case); float32 forward is deterministic for a fixed seed",
    "env.get_reward is trusted only up to the independent tour-length oracle used to attribute rewards to instances",
    "symmetric augmentation is an isometry (tour lengths evaluated on the un-augmented instance, tolerance 1e-4)",
    "SymNCO invariance loss is taken as the library returns it (either (b a) or (a b) regrouping accepted, note O1)",
    "PPO with mini-batches smaller than the batch uses instance/layer normalisation (batch-norm statistics depend on "
    "the mini-batch, so rho == 1 is not expected there); with normalize_adv every mini-batch has >= 2 rows",
    "PPO entropy H is the policy's own `entropy` output; advantage normalisation uses the unbiased std + 1e-8 as coded",
    "PPO on 40-60 nodes: the property's ratio is exp(new log-likelihood - old log-likelihood), a difference of two sums "
    "of step log-probabilities near -150: finite and equal to 1 before the first update although neither probability is "
    "representable in float32; a NaN / inf loss or gradient there is a violation (loss_value / grad_nonfinite). The "
    "stepwise / n-step variants form their ratio from the log-probability of ONE action (|log p| <= log of the number "
    "of actions), which no instance size moves towards the exp() range: no size class there",
    "an explicit CriticNetwork is supplied (note O4) except on the critic=None routes, where critic_kwargs carry the "
    "policy's embed_dim (the default 128 does not fit a small policy) and the built critic must be a CriticNetwork around "
    "an independent copy of the actor's encoder",
    "float64 slice: the library computes in float64 throughout (loss, gradients, baseline values); the running-moment "
    "scalers take their square root in float32 (C20), their cases keep a float32-level value tolerance",
    "WarmupBaseline(RolloutBaseline) through eval(): consulted via REINFORCE.calculate_loss on the reset state "
    "(REINFORCE.shared_step hands the finished td to baseline.eval and cannot be used without `extra`, observation); which "
    "policy snapshot the rollout baseline holds after an epoch callback is read from the object and must be the previous "
    "snapshot or the challenger (parameters and buffers); the acceptance t-test itself is not judged",
    "zoo_loss: MDAM / PolyNet do not apply the advantage scaler (reward_scale None there); PolyNet ties of the best "
    "rollout are don't-care (loss interval over the tied choices, no gradient comparison); MVMoE noisy gating / MatNet "
    "random one-hot init are sampled once in the captured forward; L2D makespans are not re-derived (C07)",
    "StepwisePPO reward_scale 'norm'|'scale': the scaler sees the step rewards of all rows decoding step by decoding "
    "step; stored rewards are compared in that order with float64 two-pass moments (histories with max|r|/std > 200 excluded)",
    "StepwisePPO: update_timestep = 1, default list-storage buffer (buffer_storage_device 'gpu' = no memmap/prefetch "
    "threads), mini_batch_size <= number of buffered rows; the reward is the library's "
    "immediate step reward (no reward-to-go) as coded; entropy H is compared with -sum p log p of the masked, "
    "tanh-clipped actor logits (2e-5)",
    "n_step_PPO: formulas as coded (bootstrap value recomputed per inner epoch, PPO2-style value clipping against the "
    "values of inner epoch 0, unbiased std + 1e-8 for normalize_adv, no entropy term); the dropout layers that "
    "rl4co.models.nn.mlp.MLP hides in a python list are set to p = 0 for 3 of 4 cases (re-evaluation ratio asserted "
    "only there)",
]
TIME_CAP = {"quick": 300, "thorough": 2400}

EPS32 = float(torch.finfo(torch.float32).eps)
EPS64 = float(torch.finfo(torch.float64).eps)
VAL_RTOL = 2e-6
GRAD_RTOL = 2e-5
GRAD_GTOL = 4e-6
# tolerance set in force (float32 by default); the float64 slice (audit item 26) switches to the second set for the
# duration of one case: the library then computes in float64 and only double rounding separates it from the reference
_P32 = {"val": VAL_RTOL, "grad_r": GRAD_RTOL, "grad_g": GRAD_GTOL, "eps": EPS32, "name": "f32"}
_P64 = {"val": 1e-11, "grad_r": 1e-9, "grad_g": 1e-10, "eps": EPS64, "name": "f64"}
_P = dict(_P32)


def set_precision(f64):
    _P.clear()
    _P.update(_P64 if f64 else _P32)


def preimport():
    _quiet()
    import rl4co.models.rl  # noqa
    import rl4co.models.zoo  # noqa


def _quiet():
    for name in ("rl4co", "lightning", "lightning.pytorch", "pytorch_lightning", "lightning.fabric"):
        logging.getLogger(name).setLevel(logging.ERROR)


# =========================================================================== strategies
SEED = st.integers(0, 2 ** 20)


@st.composite
def _base(draw, bmin=2, norms=("batch", "instance", "layer")):
    E = draw(st.sampled_from([16, 32]))
    return dict(
        env=draw(st.sampled_from(["tsp", "tsp", "cvrp"])),
        n=draw(st.integers(4, 8)),
        B=draw(st.integers(bmin, 8)),
        E=E,
        L=draw(st.integers(1, 2)),
        H=draw(st.sampled_from([1, 2] if E == 16 else [2, 4])),  # head_dim must be a multiple of 8
        norm=draw(st.sampled_from(list(norms))),
        spread=draw(st.sampled_from([1.0, 1.5, 2.0])),
        wseed=draw(SEED),
    )


def _steps(draw, lo, hi):
    k = draw(st.integers(lo, hi))
    return [dict(dseed=draw(SEED), sseed=draw(SEED)) for _ in range(k)]


BETAS = st.one_of(st.sampled_from([0.0, 0.5, 0.8, 0.9, 1.0]), st.floats(0.05, 0.95))


@st.composite
def reinforce_cases(draw, tier="quick"):
    c = draw(_base())
    kind = draw(st.sampled_from(["no", "mean", "exponential", "exponential", "critic", "critic_shared",
                                 "rollout_extra", "warmup", "warmup", "shared"]))
    c["kind"] = kind
    c["beta"] = draw(BETAS)
    stateful = kind in ("mean", "exponential", "warmup")
    c["steps"] = _steps(draw, 2 if stateful and draw(st.integers(0, 9)) > 0 else 1, 4)
    c["reward_scale"] = draw(st.sampled_from([None, None, None, None, 2, 10, "norm", "scale"]))
    if kind == "warmup":
        c["inner"] = draw(st.sampled_from(["no", "mean", "exponential", "critic", "critic_shared"]))
        c["inner_beta"] = draw(BETAS)
        c["n_epochs"] = draw(st.integers(1, 4))
        # number of epoch_callback calls issued before each step (alpha = (epoch+1)/n_epochs while epoch < n_epochs)
        c["callbacks"] = [draw(st.integers(0, 2)) for _ in c["steps"]]
        # audit H5: non-consecutive epoch callbacks (the first callback before a step skips `jump` epochs)
        if draw(st.booleans()):
            c["jumps"] = [draw(st.sampled_from([0, 1, 2, 3, 4])) for _ in c["steps"]]
    # audit H5: a validation / test step (eval mode, no_grad, as the Lightning loops run it) between two train steps of
    # one model: it must leave the baseline, the advantage scaler and hence the next training loss untouched
    if len(c["steps"]) >= 2 and draw(st.integers(0, 2)) == 0:
        c["between"] = [None] + [draw(st.sampled_from([None, "val", "val", "test"])) for _ in c["steps"][1:]]
    if kind == "shared":
        c["S"] = draw(st.integers(2, min(6, c["n"])))
    if kind == "rollout_extra":
        c["drift"] = draw(st.sampled_from([0.0, 0.05, 0.3]))
    # audit item 26: float64 slice (policy, critic and instances in double precision; tolerances of _P64)
    if draw(st.integers(0, 4)) == 0:
        c["f64"] = True
    return c


@st.composite
def pomo_cases(draw, tier="quick"):
    c = draw(_base())
    c["S"] = draw(st.one_of(st.none(), st.integers(2, min(6, c["n"])), st.integers(2, min(6, c["n"]))))
    c["steps"] = _steps(draw, 1, 2)
    c["reward_scale"] = draw(st.sampled_from([None, None, None, 10]))
    return c


@st.composite
def symnco_cases(draw, tier="quick"):
    c = draw(_base())
    c["A"] = draw(st.integers(2, 4))
    c["S"] = draw(st.sampled_from([0, 0, 2, 3, 4]))
    c["S"] = min(c["S"], c["n"])
    # audit item 26: num_augment=1 (no augmentation: only the problem-symmetricity term is left, needs num_starts > 1),
    # augment_fn="dihedral8" (num_augment must be 8), feats=["locs"] handed over explicitly
    opt = draw(st.sampled_from(["", "", "", "A1", "dihedral8", "feats"]))
    if opt == "A1":
        c["A"], c["S"] = 1, max(2, c["S"])
    elif opt == "dihedral8":
        c["A"], c["fn"], c["S"] = 8, "dihedral8", min(c["S"], 2)
        c["B"] = min(c["B"], 4)
    elif opt == "feats":
        c["feats"] = ["locs"]
    c["alpha"] = draw(st.sampled_from([0.0, 0.2, 1.0]))
    c["beta"] = draw(st.sampled_from([0.5, 1.0, 2.0]))
    c["steps"] = _steps(draw, 1, 2)
    return c


@st.composite
def a2c_cases(draw, tier="quick"):
    c = draw(_base())
    c["shared_encoder"] = draw(st.booleans())
    c["steps"] = _steps(draw, 1, 2)
    c["reward_scale"] = draw(st.sampled_from([None, None, None, 10]))
    # audit item 26: A2C(critic=None, critic_kwargs=...) builds its critic from a copy of the actor's encoder
    if draw(st.integers(0, 2)) == 0:
        c["critic_route"] = "default"
    return c


LL_UNDERFLOW = -87.0  # exp() of a float32 below about -87.3 is subnormal, below -103.3 it is 0


@st.composite
def ppo_large_cases(draw):
    """Size class 40-60 nodes (TSP and CVRP = a routing env with a depot): the log-likelihood of a sampled tour is about
    -log(n!) = -100 .. -180 there, far below the float32 exp() range, so the ratio must be formed in log space
    (rho = exp(ll_new - ll_old), as the property states).  Tiny policy, batch 2-4, ONE mini-batch and ONE inner epoch."""
    B = draw(st.sampled_from([2, 3, 3, 4, 4]))
    return dict(
        env=draw(st.sampled_from(["tsp", "cvrp"])), n=draw(st.integers(40, 60)), B=B, E=16, L=1,
        H=draw(st.sampled_from([1, 2])), norm=draw(st.sampled_from(["batch", "instance", "layer"])),
        # unscaled parameters keep the policy close to uniform: log-likelihood near -log(n!) (with spread 1.5 a TSP-40
        # tour comes out at -57..-72, above the range this class is about)
        spread=1.0, wseed=draw(SEED),
        mb=draw(st.sampled_from([1.0, B, B + 3])), mb_mode="full", m=B, normalize_adv=draw(st.booleans()), ppo_epochs=1,
        clip=draw(st.sampled_from([0.05, 0.1, 0.2, 0.3])), vf_lambda=draw(st.sampled_from([0.0, 0.5, 1.0, 2.5])),
        entropy_lambda=draw(st.sampled_from([0.0, 0.1])), max_grad_norm=draw(st.sampled_from([None, 0.5])),
        opt=draw(st.sampled_from(["noop", "noise"])), sigma=0.02, shared_encoder=draw(st.booleans()),
        dseed=draw(SEED), sseed=draw(SEED), large=True,
    )


@st.composite
def ppo_cases(draw, tier="quick"):
    # a few percent of the PPO cases (1 in 16 on average; Hypothesis clusters its draws: 2..34 of 288 over 40 seeds)
    # belong to the large-instance class; the sub `ppo_large` guarantees a fixed number of them in every run
    if draw(st.sampled_from([False] * 15 + [True])):
        return draw(ppo_large_cases())
    B = draw(st.integers(3, 8))
    mode = draw(st.sampled_from(["full", "frac", "int", "fallback"]))
    normalize = draw(st.booleans())
    if mode == "fallback":
        # audit item 26: invalid values fall back (ppo.py): float outside (0, 1] -> 0.25, int <= 0 -> 128
        mb = draw(st.sampled_from([1.5, -0.5, 0.0, 0, -3]))
        if isinstance(mb, float):
            B = max(B, 4)  # int(B * 0.25) >= 1
            m = int(B * 0.25)
        else:
            m = B
    elif mode == "full":
        mb = draw(st.sampled_from([1.0, B, B + 3]))
        m = B
    elif mode == "frac":
        mb = draw(st.sampled_from([0.25, 0.34, 0.5, 0.75, 0.99]))
        m = int(B * mb)
    else:
        mb = draw(st.integers(1, B))
        m = mb
    # constructed, not filtered: bump to a mini-batch size the asserted domain admits
    if m < 1 or (normalize and (m < 2 or B % m == 1)):
        mode, mb, m = "full", 1.0, B
    c = draw(_base(bmin=3, norms=("instance", "layer") if m < B else ("batch", "instance", "layer")))
    c["B"] = B
    c.update(
        mb=mb, mb_mode=mode, m=m, normalize_adv=normalize,
        ppo_epochs=draw(st.integers(1, 2)),
        clip=draw(st.sampled_from([0.05, 0.1, 0.2, 0.3])),
        vf_lambda=draw(st.sampled_from([0.0, 0.5, 1.0, 2.5])),
        entropy_lambda=draw(st.sampled_from([0.0, 0.1])),
        max_grad_norm=draw(st.sampled_from([None, 0.5])),
        opt=draw(st.sampled_from(["noop", "noise", "noise"])),
        sigma=draw(st.sampled_from([0.005, 0.02, 0.05])),
        shared_encoder=draw(st.booleans()),
        dseed=draw(SEED), sseed=draw(SEED),
    )
    # audit item 26: critic built by the model: PPO(critic=None, critic_kwargs=...) / AMPPO's own construction
    r = draw(st.sampled_from(["explicit", "explicit", "default", "amppo"]))
    if r != "explicit":
        c["critic_route"] = r
    # audit H5: a second shared_step on the same model after the (fake) optimiser moved the parameters
    if draw(st.integers(0, 2)) == 0:
        c["second"] = dict(dseed=draw(SEED), sseed=draw(SEED))
    return c


@st.composite
def rollout_eval_cases(draw, tier="quick"):
    c = draw(_base(bmin=3))
    c["drift"] = draw(st.sampled_from([0.0, 0.05, 0.3]))
    c["dseed"], c["sseed"], c["eseed"] = draw(SEED), draw(SEED), draw(SEED)
    # audit item 25: the library default baseline="rollout" = WarmupBaseline(RolloutBaseline), consulted through eval()
    # (no `extra`), in the phases alpha = 0, 0 < alpha < 1 and alpha = 1 within one history
    if draw(st.sampled_from([False, True, True, True])):
        ne = draw(st.sampled_from([1, 2, 2, 3, 3, 4]))
        k = draw(st.integers(1, 3))
        c["warm"] = dict(n_epochs=ne, beta=draw(BETAS), bl_alpha=draw(st.sampled_from([0.05, 0.5, 1.0])),
                         # epoch callbacks issued before each step (alpha > 0 from the first step on in 3 of 4 cases)
                         callbacks=[draw(st.integers(0, 2)) if i else draw(st.sampled_from([0, 1, 1, 2]))
                                    for i in range(k)],
                         steps=[dict(dseed=draw(SEED), sseed=draw(SEED), drift=draw(st.sampled_from([0.0, 0.05, 0.3])))
                                for _ in range(k)],
                         via=draw(st.sampled_from(["name", "name", "object"])))
    return c


# =========================================================================== builders
def make_env(case):
    from rl4co.envs import CVRPEnv, TSPEnv

    _quiet()
    if case["env"] == "tsp":
        return TSPEnv(generator_params=dict(num_loc=case["n"]))
    return CVRPEnv(generator_params=dict(num_loc=case["n"], capacity=15.0))


class ActiveDropout(Exception):
    """A model built with the library's defaults contains a dropout with p > 0 (see _assert_deterministic_module)."""

    def __init__(self, where, what):
        super().__init__(f"{where}: {what}")
        self.where, self.what = where, what


def _assert_deterministic_module(mod):
    """Every loss identity of this check (and PPO's own ratio, which re-evaluates stored actions in training mode)
    needs the training-mode forward pass of policy and critic to be a function of their inputs.  On the pinned tree
    every dropout of the bundled policies / critics is constructed with p = 0 (where the building block defaults to
    p > 0 the constructor passes dropout=0.0 explicitly); a model built with the documented defaults that carries an
    active dropout is reported (see _dropout_guard), not silently normalised."""
    for name, m in mod.named_modules():
        if isinstance(m, (torch.nn.Dropout, torch.nn.AlphaDropout)) and m.p > 0:
            raise ActiveDropout(f"{type(mod).__name__}.{name}", f"{m}")
        if getattr(m, "attention_dropout", 0.0):
            raise ActiveDropout(f"{type(mod).__name__}.{name}", f"attention dropout in {type(m).__name__}")


def _dropout_guard(fn):
    def run(case, ctx):
        try:
            return fn(case, ctx)
        except ActiveDropout as e:
            ctx.violation(f"active_dropout_in_default_model|{e.where}",
                          f"a model built with the library's default arguments contains {e.what} at {e.where}: its "
                          f"training-mode log-likelihoods are not a function of its inputs (the log-likelihood of the "
                          f"same actions changes from call to call, PPO's ratio does not start at one)")
    run.__name__ = getattr(fn, "__name__", "run")
    return run


def make_policy(case, cls=None, seed_offset=0):
    from rl4co.models.zoo import AttentionModelPolicy

    cls = cls or AttentionModelPolicy
    torch.manual_seed(case["wseed"] + seed_offset)
    pol = cls(env_name=case["env"], embed_dim=case["E"], num_encoder_layers=case["L"], num_heads=case["H"],
              feedforward_hidden=2 * case["E"], normalization=case["norm"])
    with torch.no_grad():
        for p in pol.parameters():
            p.mul_(case["spread"])
    _assert_deterministic_module(pol)
    pol.train()
    return pol


def make_critic(case, pol, shared):
    from rl4co.models.rl.common.critic import CriticNetwork
    from rl4co.models.zoo.am.encoder import AttentionModelEncoder

    torch.manual_seed(case["wseed"] + 7)
    if shared:
        enc = pol.encoder
    else:
        enc = AttentionModelEncoder(embed_dim=case["E"], num_heads=case["H"], num_layers=1, env_name=case["env"],
                                    normalization=case["norm"], feedforward_hidden=2 * case["E"])
    critic = CriticNetwork(enc, embed_dim=case["E"], hidden_dim=2 * case["E"])
    _assert_deterministic_module(critic)
    critic.train()
    return critic


def gen_batch(env, B, dseed):
    torch.manual_seed(dseed)
    return env.generator(B)


class Recorder:
    """forward hook keeping the inputs/outputs of the last call of a module"""

    def __init__(self, module):
        self.calls = []
        module.register_forward_hook(self._hook, with_kwargs=True)

    def _hook(self, mod, args, kwargs, out):
        self.calls.append((args, kwargs, out))

    @property
    def last(self):
        return self.calls[-1]

    def clear(self):
        self.calls.clear()


# =========================================================================== oracles
def tour_reward(envname, locs, actions, B):
    """float64 objective of flat rollouts: row i is a rollout of instance i % B (to be verified by the caller).
    locs [B, N, 2] of the reset state (CVRP: depot at index 0)."""
    locs = locs.double()
    out = []
    for i in range(actions.shape[0]):
        P = locs[i % B][actions[i]]
        if envname == "cvrp":
            P = torch.cat([locs[i % B][0:1], P, locs[i % B][0:1]], 0)
            d = (P[1:] - P[:-1]).norm(dim=-1).sum()
        else:
            d = (P[1:] - P[:-1]).norm(dim=-1).sum() + (P[0] - P[-1]).norm()
        out.append(-d)
    return torch.stack(out)


class RefEMA:
    """python-float exponential moving average of batch-mean rewards"""

    def __init__(self, beta):
        self.beta, self.v = float(beta), None

    def __call__(self, R64):
        m = float(R64.mean())
        self.v = m if self.v is None else self.beta * self.v + (1.0 - self.beta) * m
        return self.v


class RefScaler:
    """running mean / unbiased variance of everything seen so far (float64, two-pass)"""

    def __init__(self, scale):
        self.scale, self.seen = scale, []
        self.cond = 0.0  # max|x| / std: float32 running moments lose about eps*cond relative accuracy
        self.amp = 1.0 if scale is None else (1.0 / scale if isinstance(scale, int) else None)  # d out / d in

    def __call__(self, adv64, mag=None):
        """mag = max(|R|+|b|): the float32 subtraction R-b carries an absolute error eps*mag into the scaled output"""
        if self.scale is None:
            return adv64
        if isinstance(self.scale, int):
            return adv64 / self.scale
        self.seen.append(adv64.reshape(-1))
        x = torch.cat(self.seen)
        mean = x.mean()
        std = ((x - mean) ** 2).sum().div(x.numel() - 1).sqrt()
        factor = std + _P["eps"]  # (the scaler adds finfo(scores.dtype).eps)
        self.cond = float(max(float(x.abs().max()), mag or 0.0) / factor) if float(std) > 0 else math.inf
        self.amp = float(1.0 / factor)
        return (adv64 - mean) / factor if self.scale == "norm" else adv64 / factor


def uniq_named(*modules):
    seen, out = set(), []
    for tag, mod in modules:
        if mod is None:
            continue
        for n, p in mod.named_parameters():
            if id(p) not in seen and p.requires_grad:
                seen.add(id(p))
                out.append((f"{tag}.{n}", p))
    return out


def grads_of(loss, named):
    params = [p for _, p in named]
    if not (torch.is_tensor(loss) and loss.requires_grad):
        return [torch.zeros_like(p) for p in params]
    gs = torch.autograd.grad(loss, params, retain_graph=True, allow_unused=True)
    return [torch.zeros_like(p) if g is None else g for g, p in zip(gs, params)]


def gnorm(gs):
    return math.sqrt(sum(float(g.double().pow(2).sum()) for g in gs))


def ulp_noise(shape_like, weight64, loose=1.0):
    """+-eps32*loose*weight perturbation (fixed sign pattern) of an advantage tensor.

    The two backward passes that are compared receive upstream weights -(R-b)_i/N that differ by float32 rounding of
    magnitude eps*(|R_i|+|b_i|) (the library subtracts in float32, the reference in float64), and a float32 backward
    pass reacts to such last-bit changes with its own rounding noise (observed up to 3e-5 of the gradient norm for
    spread-out weights).  Rather than guessing that sensitivity, the reference gradient is evaluated a second time with
    the advantages perturbed by exactly this amount; the measured change is the resolution of the comparison."""
    gen = torch.Generator().manual_seed(12345)
    sgn = (torch.randint(0, 2, tuple(shape_like.shape), generator=gen) * 2 - 1).double()
    return _P["eps"] * loose * sgn * weight64


def compare_grads(ctx, named, loss, ref_fn, pert, sig, what, loose=1.0):
    """grad(loss) vs grad(ref_fn(0)); tolerance per parameter
    loose*(2e-5*max(|g|,|g_ref|) + 4e-6*|g_all|) + 8*noise_p + noise_all, noise = |grad ref_fn(pert) - grad ref_fn(0)|."""
    g_lib, g_ref, g_prt = grads_of(loss, named), grads_of(ref_fn(None), named), grads_of(ref_fn(pert), named)
    gl, gr = gnorm(g_lib), gnorm(g_ref)
    G = max(gl, gr)
    noise = [float((a.double() - b.double()).norm()) for a, b in zip(g_prt, g_ref)]
    noise_all = math.sqrt(sum(x * x for x in noise))
    if not (math.isfinite(G) and math.isfinite(noise_all)):
        ctx.violation(f"grad_nonfinite|{sig}", f"{what}: non-finite gradient (lib {gl}, reference {gr})")
        return
    for (name, _), a, b, nz in zip(named, g_lib, g_ref, noise):
        a, b = a.double(), b.double()
        err = float((a - b).norm())
        tol = loose * (_P["grad_r"] * max(float(a.norm()), float(b.norm())) + _P["grad_g"] * G) + 8 * nz + noise_all + 1e-12
        _cal("grad", err / tol)
        if err > tol:
            grp = "policy" if name.startswith("policy.") else "critic"
            ctx.violation(f"grad_{grp}|{sig}",
                          f"{what}: gradient w.r.t. {name} differs from the reference surrogate's: "
                          f"|dg|={err:.3e} |g_lib|={float(a.norm()):.3e} |g_ref|={float(b.norm()):.3e} |g_all|={G:.3e} "
                          f"(resolution {nz:.1e}/{noise_all:.1e})",
                          {"param": name, "err": err, "tol": tol})
    ctx.event("grad_checked" if G > 100 * noise_all and G > 0 else "grad_degenerate")


_CUR = {}


def _cal(kind, value):
    """development aid: VF_C16_CAL=<file> logs observed error/tolerance ratios (never used for verdicts)"""
    path = os.environ.get("VF_C16_CAL")
    if path:
        with open(path, "a") as f:
            f.write(f"{kind} {value:.4e} {_CUR.get('sig')}\n")


def close(x, y, scale, rtol=None):
    rtol = _P["val"] if rtol is None else rtol
    tol = rtol * float(scale) + (1e-9 if _P["name"] == "f32" else 1e-14)
    _cal("value", abs(float(x) - float(y)) / tol)
    return abs(float(x) - float(y)) <= tol and math.isfinite(float(x))


def as64(x, like):
    if torch.is_tensor(x):
        return x.detach().double()
    return torch.full_like(like, float(x), dtype=torch.float64)


def mark(ctx, case, R, steps_done, stateful):
    nonconst = bool(R.numel() > 1 and float(R.double().std()) > 1e-6)
    if not nonconst:
        ctx.event("constant_rewards")
    if case["B"] >= 3 and nonconst and (not stateful or steps_done >= 2):
        ctx.nontriv()


def check_reward_rows(ctx, case, td0, out, sig, B=None):
    """every flat reward is the objective of its own action row on instance (row % B)"""
    B = B or case["B"]
    R = out["reward"].detach().reshape(-1)
    ref = tour_reward(case["env"], td0["locs"], out["actions"].reshape(R.shape[0], -1), B)
    bad = (R.double() - ref).abs() > 1e-4
    ctx.check(not bool(bad.any()), f"reward_rows|{sig}",
              "a reward is not the objective of its own rollout on instance (row % B)",
              {"R": R, "ref": ref})


# =========================================================================== REINFORCE family
class RefBaseline:
    """independent model of the bundled baselines (values float64, loss as a float32 graph on the critic)"""

    def __init__(self, kind, beta=None, critic=None):
        self.kind, self.critic = kind, critic
        self.ema = RefEMA(0.0 if kind == "mean" else beta) if kind in ("mean", "exponential") else None

    def __call__(self, td0, R):
        """-> (b64 broadcastable to R, L_b tensor or 0.0)"""
        R64 = R.detach().double()
        if self.kind == "no":
            return torch.zeros_like(R64), 0.0
        if self.ema is not None:
            return torch.full_like(R64, self.ema(R64)), 0.0
        if self.kind in ("critic", "critic_shared"):
            v = self.critic(td0.clone()).squeeze(-1)
            return v.detach().double(), ((v - R.detach()) ** 2).mean()
        raise HarnessError(self.kind)


class RefWarmup:
    def __init__(self, inner, n_epochs, beta_w):
        self.inner, self.n_epochs, self.alpha, self.epoch = inner, n_epochs, 0.0, 0
        self.warm = RefBaseline("exponential", beta_w)

    def callback(self, epoch=None):
        """epoch callback of `epoch` (default: the next consecutive one): alpha = min(1, (epoch+1)/n_epochs), also when
        epochs are skipped (resumed runs; C20 / F27)"""
        e = self.epoch if epoch is None else epoch
        self.alpha = min(1.0, (e + 1) / float(self.n_epochs))
        self.epoch = e + 1

    def __call__(self, td0, R):
        if self.alpha == 1:
            return self.inner(td0, R)
        if self.alpha == 0:
            return self.warm(td0, R)
        vb, lb = self.inner(td0, R)
        vw, lw = self.warm(td0, R)
        return self.alpha * vb + (1 - self.alpha) * vw, self.alpha * lb + (1 - self.alpha) * lw


def check_surrogate(ctx, case, sig, out, named, R, ll, b64, lb_ref, scaler, step):
    """value + gradient comparison of out['loss'] with -mean(scale(R-b)*ll) + L_b"""
    loss = out["loss"]
    _CUR["sig"] = sig
    R64, ll64 = R.detach().double(), ll.detach().double()
    adv64 = scaler(R64 - b64, float((R64.abs() + b64.abs()).max()))
    pg64 = -(adv64 * ll64).mean()
    lb64 = float(lb_ref) if not torch.is_tensor(lb_ref) else float(lb_ref.detach().double())
    scale = float(((R64.abs() + b64.abs()) * ll64.abs()).mean()) * scaler.amp
    scale = scale + abs(lb64)
    # running-moment scalers: RewardScaler's float32 Welford update starts from mean 0, so its M2 cancels
    # catastrophically: relative error ~ eps*cond^2 with cond = max|adv|/std (plus eps*cond from adv - mean).
    # Ill-conditioned histories (cond > 200, e.g. two nearly equal advantages) are excluded, not compared.
    loose = 1.0
    if isinstance(scaler.scale, str):
        if scaler.cond > 200:
            ctx.exclude("scaler_ill_conditioned")
            return
        # (the scaler takes the square root of its variance in float32 for every input dtype, C20: its outputs carry a
        #  float32 relative error also in the float64 slice)
        loose = 2.0 * (1.0 + scaler.cond) + _P["eps"] * (1.0 + scaler.cond) ** 2 / _P["val"]
        if _P["name"] == "f64":
            loose += 8 * EPS32 / _P["val"]
    rtol = _P["val"] * loose
    detail = {"step": step, "loss": loss, "ref": float(pg64) + lb64, "pg_ref": float(pg64), "lb_ref": lb64,
              "R": R, "b_ref": b64, "ll": ll}
    ctx.check(torch.is_tensor(loss) and loss.dim() == 0, f"loss_shape|{sig}", "loss is not a scalar tensor", detail)
    ctx.check(close(loss, float(pg64) + lb64, scale, rtol), f"loss_value|{sig}",
              f"loss {float(loss):.8g} != -mean((R-b)*ll) + L_b = {float(pg64) + lb64:.8g}", detail)
    if "reinforce_loss" in out:
        ctx.check(close(out["reinforce_loss"], pg64, scale, rtol), f"reinforce_term|{sig}",
                  f"reinforce_loss {float(out['reinforce_loss']):.8g} != -mean((R-b)*ll) = {float(pg64):.8g}", detail)
        bl = out["bl_loss"]
        ctx.check(close(bl, lb64, abs(lb64) + 1e-3), f"baseline_loss|{sig}",
                  f"bl_loss {float(bl):.8g} != reference baseline loss {lb64:.8g}", detail)
    # gradients: reference built from the captured log-likelihood graph with R, b detached
    def ref_fn(pert):
        a = adv64 if pert is None else adv64 + pert
        ref = -(a.to(ll.dtype).detach() * ll).mean()
        return ref + lb_ref if torch.is_tensor(lb_ref) else ref

    compare_grads(ctx, named, loss, ref_fn, ulp_noise(adv64, (R64.abs() + b64.abs()) * scaler.amp, loose), sig,
                  f"step {step}", loose)


def check_no_grad_inputs(ctx, sig, R, ll, bl_val):
    ctx.check(not R.requires_grad, f"reward_requires_grad|{sig}", "reward carries a gradient")
    ctx.check(ll.requires_grad, f"ll_no_grad|{sig}", "log-likelihood carries no gradient (nothing to train)")
    if torch.is_tensor(bl_val):
        ctx.check(not bl_val.requires_grad, f"baseline_requires_grad|{sig}",
                  "baseline value carries a gradient into the policy-gradient term")


def check_bl_val(ctx, sig, bl_val, b64, R, step):
    got = as64(bl_val, R.detach().double().reshape(-1)[:1]) if not torch.is_tensor(bl_val) else bl_val.detach().double()
    try:
        diff = (got - b64).abs()
    except RuntimeError:
        ctx.violation(f"baseline_shape|{sig}", f"baseline value shape {tuple(got.shape)} does not broadcast", None)
        return
    ok = bool((diff <= _P["val"] * (1 + b64.abs())).all()) and torch.broadcast_shapes(got.shape, R.shape) == R.shape
    ctx.check(ok, f"baseline_value|{sig}",
              f"step {step}: baseline value {got.reshape(-1)[:4].tolist()} != reference {b64.reshape(-1)[:4].tolist()}",
              {"bl_val": got, "b_ref": b64})


def exec_reinforce(case, ctx):
    from rl4co.models.rl import REINFORCE
    from rl4co.models.rl.reinforce.baselines import (CriticBaseline, ExponentialBaseline, NoBaseline,
                                                     WarmupBaseline, get_reinforce_baseline)

    kind = case["kind"]
    f64 = bool(case.get("f64"))
    set_precision(f64)
    try:
        _exec_reinforce(case, ctx, kind, f64)
    finally:
        set_precision(False)


def _exec_reinforce(case, ctx, kind, f64):
    from rl4co.models.rl import REINFORCE
    from rl4co.models.rl.reinforce.baselines import (CriticBaseline, ExponentialBaseline, NoBaseline,
                                                     WarmupBaseline, get_reinforce_baseline)
    from ..policies import to_double

    env = make_env(case)
    pol = make_policy(case)
    if f64:
        pol = pol.double()
    rec = Recorder(pol)
    critic = None
    sig = kind
    B = case["B"]
    ctx.event("dtype=" + ("f64" if f64 else "f32"))
    _make_critic = globals()["make_critic"]

    def make_critic(case, pol, shared):  # noqa  (float64 slice: the critic follows the policy's dtype)
        c = _make_critic(case, pol, shared)
        return c.double() if f64 else c

    def lib_and_ref(k, beta):
        """bundled baseline object + its reference model"""
        nonlocal critic
        if k in ("critic", "critic_shared"):
            critic = make_critic(case, pol, shared=(k == "critic_shared"))
            return CriticBaseline(critic), RefBaseline(k, critic=critic)
        if k == "no":
            return NoBaseline(), RefBaseline("no")
        if k == "mean":
            return get_reinforce_baseline("mean"), RefBaseline("mean")
        return ExponentialBaseline(beta=beta), RefBaseline("exponential", beta)

    if kind == "warmup":
        inner_lib, inner_ref = lib_and_ref(case["inner"], case["inner_beta"])
        bl = WarmupBaseline(inner_lib, n_epochs=case["n_epochs"], warmup_exp_beta=case["beta"])
        ref_bl = RefWarmup(inner_ref, case["n_epochs"], case["beta"])
        model = REINFORCE(env, pol, baseline=bl, reward_scale=case["reward_scale"])
        sig = f"warmup[{case['inner']}]"
    elif kind in ("critic", "critic_shared"):
        critic = make_critic(case, pol, shared=(kind == "critic_shared"))
        model = REINFORCE(env, pol, baseline="critic", baseline_kwargs=dict(critic=critic),
                          reward_scale=case["reward_scale"])
        ref_bl = RefBaseline(kind, critic=critic)
    elif kind == "exponential":
        model = REINFORCE(env, pol, baseline="exponential", baseline_kwargs=dict(beta=case["beta"]),
                          reward_scale=case["reward_scale"])
        ref_bl = RefBaseline("exponential", case["beta"])
    elif kind in ("no", "mean", "shared"):
        model = REINFORCE(env, pol, baseline=kind, reward_scale=case["reward_scale"])
        ref_bl = RefBaseline(kind) if kind != "shared" else None
    elif kind == "rollout_extra":
        # default baseline string "rollout" = WarmupBaseline(RolloutBaseline); with `extra` it must not be consulted
        model = REINFORCE(env, pol, baseline="rollout", reward_scale=case["reward_scale"])
        frozen = copy.deepcopy(pol).eval()
        if case["drift"] > 0:
            g = torch.Generator().manual_seed(case["wseed"] + 3)
            with torch.no_grad():
                for p in pol.parameters():
                    p.add_(case["drift"] * p.abs().mean() * torch.randn(p.shape, generator=g).to(p.dtype))
        ref_bl = None
    else:
        raise HarnessError(kind)
    if f64:
        sig += "|f64"
    if case["reward_scale"] is not None:
        sig += f"|scale={case['reward_scale'] if isinstance(case['reward_scale'], str) else 'int'}"
    named = uniq_named(("policy", pol), ("critic", critic))
    scaler = RefScaler(case["reward_scale"])
    stateful = kind in ("mean", "exponential", "warmup") or isinstance(case["reward_scale"], str)
    ctx.event(f"kind={kind}")
    ctx.event(f"scale={case['reward_scale']}")

    for k, stp in enumerate(case["steps"]):
        if case.get("between") and case["between"][k]:
            ph = case["between"][k]
            vb = gen_batch(env, B, stp["dseed"] + 17)
            if f64:
                vb = to_double(vb)
            pol.eval()
            with torch.no_grad():
                vres = ctx.guard(model.shared_step, vb, 0, ph, what=f"shared_step|{kind}|{ph}")
            pol.train()
            ctx.check(vres.get("loss") is None, f"val_step_has_loss|{sig}", f"a {ph} step returned a loss")
            ctx.event(f"between={ph}")
        if kind == "warmup":
            for j in range(case["callbacks"][k]):
                e = ref_bl.epoch + (case["jumps"][k] if case.get("jumps") and j == 0 else 0)
                if e != ref_bl.epoch:
                    ctx.event("epoch_callback_skipped_epochs")
                ctx.guard(bl.epoch_callback, pol, env=env, batch_size=B, device="cpu", epoch=e,
                          dataset_size=B, what="epoch_callback")
                ref_bl.callback(e)
            ctx.event("alpha=" + ("0" if ref_bl.alpha == 0 else "1" if ref_bl.alpha == 1 else "interior"))
        batch = gen_batch(env, B, stp["dseed"])
        if f64:
            batch = to_double(batch)
        td0 = env.reset(batch.clone())
        if f64:
            td0 = to_double(td0)
        rec.clear()
        if kind == "shared":
            # multi-start rollout regrouped by the harness ([b, s] <- flat s*B + b) and handed to calculate_loss
            S = case["S"]
            torch.manual_seed(stp["sseed"])
            out = ctx.guard(pol, td0.clone(), env, phase="train", decode_type="multistart_sampling", num_starts=S,
                            what="policy")
            check_reward_rows(ctx, case, td0, out, sig)
            R = torch.stack([out["reward"][s * B + torch.arange(B)] for s in range(S)], 1)
            ll = torch.stack([out["log_likelihood"][s * B + torch.arange(B)] for s in range(S)], 1)
            out = ctx.guard(model.calculate_loss, td0.clone(), batch, out, R, ll, what="calculate_loss|shared")
            b64 = R.double().mean(1, keepdim=True).expand_as(R)
            lb_ref = 0.0
        else:
            if kind == "rollout_extra":
                with torch.no_grad():
                    extra = frozen(td0.clone(), env, decode_type="greedy")["reward"]
                batch.set("extra", extra.clone())
            torch.manual_seed(stp["sseed"])
            res = ctx.guard(model.shared_step, batch.clone(), k, "train", what=f"shared_step|{kind}")
            out = rec.calls[0][2]
            R, ll = out["reward"], out["log_likelihood"]
            ctx.check(res["loss"] is out["loss"] or float(res["loss"]) == float(out["loss"]), f"returned_loss|{sig}",
                      "shared_step does not return the computed loss")
            check_reward_rows(ctx, case, td0, out, sig)
            if kind == "rollout_extra":
                b64, lb_ref = extra.double(), 0.0
            else:
                b64, lb_ref = ref_bl(td0, R)
        check_no_grad_inputs(ctx, sig, R, ll, out["bl_val"])
        check_bl_val(ctx, sig, out["bl_val"], b64, R, k)
        if kind == "shared":
            adv = R.detach().double() - as64(out["bl_val"], R.double())
            ctx.check(bool((adv.sum(1).abs() <= 1e-5 * (1 + R.detach().abs().double().sum(1))).all()),
                      f"adv_zero_sum|{sig}", "shared-baseline advantages do not sum to 0 within an instance",
                      {"adv": adv})
        check_surrogate(ctx, case, sig, out, named, R, ll, b64, lb_ref, scaler, k)
        mark(ctx, case, R, k + 1, stateful)
    ctx.sample({k_: case[k_] for k_ in ("env", "n", "B", "E", "L", "norm", "kind", "beta", "reward_scale")}
               | {"steps": len(case["steps"])})


# =========================================================================== A2C
def check_default_critic(ctx, tag, pol, critic):
    """critic=None: 'we reuse the network of the policy's backbone' (create_critic_from_actor / AMPPO): a CriticNetwork
    around a COPY of the actor's encoder - same weights at construction, no shared parameters (a shared encoder would
    let the value loss move the actor; that configuration is the explicit `critic_shared` one)."""
    from rl4co.models.rl.common.critic import CriticNetwork

    ok = isinstance(critic, CriticNetwork) and critic.encoder is not pol.encoder
    if ok:
        pa, pb = dict(pol.encoder.named_parameters()), dict(critic.encoder.named_parameters())
        ok = pa.keys() == pb.keys() and all(pa[k] is not pb[k] and torch.equal(pa[k], pb[k]) for k in pa)
    ctx.check(ok, f"default_critic|{tag}", "critic=None did not build a CriticNetwork around an independent copy of the "
              "actor's encoder")
    _assert_deterministic_module(critic)
    critic.train()
    ctx.event(f"critic_route=default|{tag}")


def exec_a2c(case, ctx):
    from rl4co.models.rl import A2C

    env = make_env(case)
    pol = make_policy(case)
    rec = Recorder(pol)
    if case.get("critic_route") == "default":
        torch.manual_seed(case["wseed"] + 7)
        model = ctx.guard(A2C, env, pol, critic=None, critic_kwargs=dict(embed_dim=case["E"], hidden_dim=2 * case["E"]),
                          reward_scale=case["reward_scale"], what="A2C.__init__|critic=None")
        critic = model.baseline.critic
        check_default_critic(ctx, "a2c", pol, critic)
        case = {**case, "shared_encoder": False}
    else:
        critic = make_critic(case, pol, shared=case["shared_encoder"])
        model = A2C(env, pol, critic=critic, reward_scale=case["reward_scale"])
    kind = "critic_shared" if case["shared_encoder"] else "critic"
    ref_bl = RefBaseline(kind, critic=critic)
    named = uniq_named(("policy", pol), ("critic", critic))
    scaler = RefScaler(case["reward_scale"])
    sig = f"a2c[{kind}]"
    ctx.event(kind)
    for k, stp in enumerate(case["steps"]):
        batch = gen_batch(env, case["B"], stp["dseed"])
        td0 = env.reset(batch.clone())
        rec.clear()
        torch.manual_seed(stp["sseed"])
        res = ctx.guard(model.shared_step, batch.clone(), k, "train", what="shared_step|a2c")
        out = rec.calls[0][2]
        R, ll = out["reward"], out["log_likelihood"]
        ctx.check(float(res["loss"]) == float(out["loss"]), f"returned_loss|{sig}",
                  "shared_step does not return the computed loss")
        check_reward_rows(ctx, case, td0, out, sig)
        b64, lb_ref = ref_bl(td0, R)
        check_no_grad_inputs(ctx, sig, R, ll, out["bl_val"])
        check_bl_val(ctx, sig, out["bl_val"], b64, R, k)
        check_surrogate(ctx, case, sig, out, named, R, ll, b64, lb_ref, scaler, k)
        mark(ctx, case, R, k + 1, False)
    ctx.sample({k_: case[k_] for k_ in ("env", "n", "B", "E", "L", "norm", "shared_encoder")})


# =========================================================================== POMO
def exec_pomo(case, ctx):
    from rl4co.models.zoo import POMO

    env = make_env(case)
    pol = make_policy(case)
    rec = Recorder(pol)
    model = POMO(env, pol, num_starts=case["S"], reward_scale=case["reward_scale"])
    named = uniq_named(("policy", pol))
    scaler = RefScaler(case["reward_scale"])
    B = case["B"]
    sig = "pomo"
    ctx.event("S=None" if case["S"] is None else "S=int")
    for k, stp in enumerate(case["steps"]):
        batch = gen_batch(env, B, stp["dseed"])
        td0 = env.reset(batch.clone())
        rec.clear()
        torch.manual_seed(stp["sseed"])
        res = ctx.guard(model.shared_step, batch.clone(), k, "train", what="shared_step|pomo")
        out = rec.calls[0][2]
        Rf, llf = out["reward"], out["log_likelihood"]
        N = Rf.shape[0]
        ctx.check(Rf.dim() == 1 and N % B == 0 and N // B >= 2 and (case["S"] is None or N == B * case["S"]),
                  f"num_starts|{sig}", f"{N} rollouts for batch {B}, num_starts {case['S']}")
        S = N // B
        check_reward_rows(ctx, case, td0, out, sig)  # flat row i belongs to instance i % B
        idx = torch.arange(B)
        R = torch.stack([Rf[s * B + idx] for s in range(S)], 1)  # [B, S], own grouping
        ll = torch.stack([llf[s * B + idx] for s in range(S)], 1)
        b64 = R.detach().double().mean(1, keepdim=True).expand_as(R)
        ctx.check(float(res["loss"]) == float(out["loss"]), f"returned_loss|{sig}",
                  "shared_step does not return the computed loss")
        check_no_grad_inputs(ctx, sig, Rf, llf, out["bl_val"])
        check_bl_val(ctx, sig, out["bl_val"], b64, R, k)
        adv = R.detach().double() - as64(out["bl_val"], R.double())
        ctx.check(bool((adv.sum(1).abs() <= 1e-5 * (1 + R.detach().abs().double().sum(1))).all()),
                  f"adv_zero_sum|{sig}", "shared-baseline advantages do not sum to 0 within an instance", {"adv": adv})
        check_surrogate(ctx, case, sig, out, named, R, ll, b64, 0.0, scaler, k)
        mark(ctx, case, R, k + 1, False)
    ctx.sample({k_: case[k_] for k_ in ("env", "n", "B", "E", "L", "norm", "S")})


# =========================================================================== SymNCO
def exec_symnco(case, ctx):
    from rl4co.models.zoo import SymNCO
    from rl4co.models.zoo.symnco.policy import SymNCOPolicy

    env = make_env(case)
    pol = make_policy(case, cls=SymNCOPolicy)
    rec = Recorder(pol)
    A, S, B = case["A"], case["S"], case["B"]
    if S == 1:
        S = 0
    kw = {}
    if "fn" in case:
        kw["augment_fn"] = case["fn"]
    if "feats" in case:
        kw["feats"] = list(case["feats"])
    model = SymNCO(env, pol, num_augment=A, num_starts=S, alpha=case["alpha"], beta=case["beta"], **kw)
    named = uniq_named(("policy", pol))
    sig = f"symnco|S={'0' if S == 0 else 'k'}" + ("|A=1" if A == 1 else "")
    ctx.event("opt=" + ("A1" if A == 1 else case.get("fn") or ("feats" if "feats" in case else "default")))
    _CUR["sig"] = sig
    ctx.event(f"S={'0' if S == 0 else 'k'}")
    ctx.event("S==A" if S == A else "S!=A")
    for k, stp in enumerate(case["steps"]):
        batch = gen_batch(env, B, stp["dseed"])
        td0 = env.reset(batch.clone())
        rec.clear()
        torch.manual_seed(stp["sseed"])
        res = ctx.guard(model.shared_step, batch.clone(), k, "train", what="shared_step|symnco")
        out = rec.calls[0][2]
        Rf, llf = out["reward"], out["log_likelihood"]
        S1 = max(S, 1)
        N = Rf.shape[0]
        ctx.check(Rf.dim() == 1 and N == S1 * A * B, f"num_rollouts|{sig}",
                  f"{N} rollouts for batch {B}, num_augment {A}, num_starts {S}")
        # every flat row i is a rollout of (an isometric copy of) instance i % B -> any regrouping that keeps
        # the innermost index fixed averages within one instance
        check_reward_rows(ctx, case, td0, out, sig)
        check_no_grad_inputs(ctx, sig, Rf, llf, None)
        R64, ll64 = Rf.detach().double(), llf.detach().double()

        # library layout documented by ops.unbatchify ('(r b) ... -> b r ...', applied for n_aug then n_start):
        # element [b, i, j] <- flat j*(S1*B) + i*B + b   (i < S1, j < A); for S == 0 only [b, j] <- flat j*B + b
        def regroup(x):
            if A == 1:  # a factor of 1 is no axis (ops.unbatchify): [B, S] <- flat i*B + b
                return torch.stack([x[i * B + torch.arange(B)] for i in range(S1)], 1)
            if S == 0:
                return torch.stack([x[j * B + torch.arange(B)] for j in range(A)], 1)  # [B, A]
            return torch.stack([torch.stack([x[j * (S1 * B) + i * B + torch.arange(B)] for j in range(A)], 1)
                                for i in range(S1)], 1)  # [B, S, A]

        Rg, llg = regroup(Rf), regroup(llf)
        Rg64 = Rg.detach().double()

        def pg(dim):
            adv = Rg64 - Rg64.mean(dim, keepdim=True)
            ok = bool((adv.sum(dim).abs() <= 1e-9 * (1 + Rg64.abs().sum(dim))).all())
            if not ok:
                raise HarnessError("reference advantages not centred")
            return adv

        scale = float((R64.abs() * ll64.abs()).mean()) * 2
        terms64 = {}
        if A == 1:
            # no augmentation: solution-symmetricity and invariance terms are switched off ("if n_aug > 1")
            adv_ss = torch.zeros_like(Rg64)
            terms64["loss_ss"] = 0.0
        else:
            adv_ss = pg(-1)
            terms64["loss_ss"] = float(-(adv_ss * llg.detach().double()).mean())
        if S > 1:
            adv_ps = pg(1)
            terms64["loss_ps"] = float(-(adv_ps * llg.detach().double()).mean())
        else:
            adv_ps = None
            terms64["loss_ps"] = 0.0
        for name in ("loss_ps", "loss_ss"):
            ctx.check(close(out[name], terms64[name], scale), f"{name}|{sig}",
                      f"{name} {float(out[name]):.8g} != reference {terms64[name]:.8g}",
                      {"R": Rg, "ll": llg, "step": k})
        linv = out["loss_inv"]
        if A == 1:
            ctx.check(float(linv) == 0.0, f"loss_inv|{sig}", f"loss_inv {linv!r} without augmentation (expected 0)")
        else:
            # invariance term: mean over rows of sum_i cos(pe[:, 0], pe[:, i]); layout (b a) as coded or (a b) as laid out
            pe = out["proj_embeddings"].detach().double()
            cos = torch.nn.functional.cosine_similarity
            v_ba = pe.reshape(B, A, *pe.shape[1:])
            v_ab = pe.reshape(A, B, *pe.shape[1:]).transpose(0, 1)
            cands = [float(sum(cos(v[:, 0], v[:, i], dim=-1) for i in range(1, A)).mean()) for v in (v_ba, v_ab)]
            ctx.check(any(close(linv, c, A) for c in cands) or any(close(linv, -c, A) for c in cands), f"loss_inv|{sig}",
                      f"loss_inv {float(linv):.8g} is not a mean summed cosine similarity of the projected embeddings "
                      f"(candidates {cands})")
        total64 = terms64["loss_ps"] + case["beta"] * terms64["loss_ss"] + case["alpha"] * float(linv)
        ctx.check(close(out["loss"], total64, scale * (1 + case["beta"]) + case["alpha"] * A), f"loss_value|{sig}",
                  f"loss {float(out['loss']):.8g} != L_ps + beta*L_ss + alpha*L_inv = {total64:.8g}",
                  {"terms": terms64, "loss_inv": linv, "step": k})
        ctx.check(float(res["loss"]) == float(out["loss"]), f"returned_loss|{sig}",
                  "shared_step does not return the computed loss")

        def ref_fn(pert):
            d = 0.0 if pert is None else pert
            ref = case["alpha"] * linv
            if A > 1:
                ref = ref + case["beta"] * (-((adv_ss + d).float() * llg).mean())
            if S > 1:
                ref = ref + (-((adv_ps + d).float() * llg).mean())
            return ref

        compare_grads(ctx, named, out["loss"], ref_fn, ulp_noise(Rg64, 2 * Rg64.abs()), sig, f"step {k}")
        mark(ctx, case, Rf, k + 1, False)
    ctx.sample({k_: case[k_] for k_ in ("env", "n", "B", "E", "L", "norm", "A", "S", "alpha", "beta")})


# =========================================================================== PPO
def huber64(v, r):
    d = (v - r).abs()
    return torch.where(d <= 1.0, 0.5 * d * d, d - 0.5).mean()


class FakeOpt:
    def __init__(self, params, mode, sigma, seed, log):
        self.params, self.mode, self.sigma, self.seed, self.log, self.n = params, mode, sigma, seed, log, 0

    def zero_grad(self, *a, **k):
        self.log.append("zero_grad")
        for p in self.params:
            p.grad = None

    def step(self, *a, **k):
        self.log.append("step")
        self.n += 1
        if self.mode == "noise":
            g = torch.Generator().manual_seed(self.seed + self.n)
            with torch.no_grad():
                for p in self.params:
                    p.add_(self.sigma * (p.abs().mean() + 1e-3) * torch.randn(p.shape, generator=g))


def exec_ppo(case, ctx):
    from rl4co.models.rl import PPO

    env = make_env(case)
    pol = make_policy(case)
    B, eps = case["B"], case["clip"]
    mb = case["mb"]
    if case["mb_mode"] == "fallback":
        pass  # (as drawn: the type decides the fallback; JSON keeps int / float apart)
    elif case["mb_mode"] == "frac" or (case["mb_mode"] == "full" and mb == 1.0):
        mb = float(mb)
    else:
        mb = int(mb)
    kw = dict(clip_range=eps, ppo_epochs=case["ppo_epochs"], mini_batch_size=mb,
              vf_lambda=case["vf_lambda"], entropy_lambda=case["entropy_lambda"],
              normalize_adv=case["normalize_adv"], max_grad_norm=case["max_grad_norm"])
    route = case.get("critic_route", "explicit")
    if route == "explicit":
        critic = make_critic(case, pol, shared=case["shared_encoder"])
        model = PPO(env, pol, critic=critic, **kw)
    else:
        from rl4co.models.zoo import AMPPO

        ck = dict(embed_dim=case["E"], hidden_dim=2 * case["E"])
        torch.manual_seed(case["wseed"] + 7)
        if route == "default":
            model = ctx.guard(PPO, env, pol, critic=None, critic_kwargs=ck, what="PPO.__init__|critic=None", **kw)
        else:
            model = ctx.guard(AMPPO, env, pol, critic_kwargs=ck, what="AMPPO.__init__|critic=None", **kw)
        critic = model.critic
        check_default_critic(ctx, "ppo" if route == "default" else "amppo", pol, critic)
    if case["mb_mode"] == "fallback":
        want_mb = 0.25 if isinstance(mb, float) else 128
        ctx.check(model.ppo_cfg["mini_batch_size"] == want_mb, "ppo|mini_batch_size_fallback",
                  f"mini_batch_size={mb!r} fell back to {model.ppo_cfg['mini_batch_size']!r}, documented {want_mb}")
        ctx.event(f"mb_fallback={'float' if isinstance(mb, float) else 'int'}")
    prec, crec = Recorder(pol), Recorder(critic)
    named = uniq_named(("policy", pol), ("critic", critic))
    log = []
    opt = FakeOpt([p for _, p in named], case["opt"], case["sigma"], case["wseed"], log)
    sig = f"ppo|{'norm' if case['normalize_adv'] else 'raw'}"
    _CUR["sig"] = sig
    state = {"n": 0, "rows": 0, "last": None, "Rall": [], "start_n": 0}
    m_eff = min(case["m"], B)

    def manual_backward(loss, *a, **k):
        log.append("backward")
        i = state["n"]
        state["n"] += 1
        (pargs, pkw, pout) = prec.last
        sub_td, actions = pargs[0], pkw["actions"]
        V = crec.last[2]
        ll, H = pout["log_likelihood"], pout["entropy"]
        R, lp_old = sub_td["reward"], sub_td["logprobs"]
        b = R.shape[0]
        state["rows"] += b
        state["Rall"].append(R.detach().clone())
        what = f"inner step {i} (mini-batch of {b})"
        ctx.check(not R.requires_grad and not lp_old.requires_grad, f"old_requires_grad|{sig}",
                  "old rewards / log-probs carry a gradient")
        ctx.check(ll.dim() == 2 and ll.shape[0] == b and tuple(V.shape) == (b, 1) and tuple(H.shape) == (b,),
                  f"shapes|{sig}", f"unexpected shapes ll {tuple(ll.shape)} V {tuple(V.shape)} H {tuple(H.shape)}")
        # rows travel together through the shuffling data loader: reward is the objective of (locs, action) of the row
        ref_R = tour_reward(case["env"], sub_td["locs"], actions, b)
        ctx.check(bool(((R.double() - ref_R).abs() <= 1e-4).all()), f"reward_rows|{sig}",
                  "mini-batch reward is not the objective of the row's stored actions", {"R": R, "ref": ref_R})
        ll64, V64, R64, H64 = ll.detach().double(), V.detach().double().squeeze(-1), R.double(), H.detach().double()
        rho64 = torch.exp(ll64.sum(-1) - lp_old.double())
        if case.get("large"):
            state["min_old_ll"] = min(state.get("min_old_ll", 0.0), float(lp_old.min()))
            state["max_old_ll"] = max(state.get("max_old_ll", -math.inf), float(lp_old.max()))
        if opt.n == state["start_n"]:  # no optimiser step yet within this shared_step
            # float32 rounding of the summed log-probabilities: the sampling pass runs on the whole batch, the
            # evaluation pass on a shuffled mini-batch (other kernel shapes / accumulation orders, amplified by the
            # normalisation layers): 256 ulp of (1 + sum_t |ll_t|) ~ 3e-5 per unit of |log-likelihood|, x4 with batch
            # normalisation (observed on the unchanged tree: <= 4e-5 resp. 7e-5; design nominal was 1e-5)
            rtol_rho = 256 * EPS32 * (1 + ll64.abs().sum(-1)) * (4 if case["norm"] == "batch" else 1)
            _cal("ratio_" + case["norm"], float(((rho64 - 1).abs() / rtol_rho).max()))
            ctx.check(bool(((rho64 - 1).abs() <= rtol_rho).all()), f"ratio_not_one|{sig}",
                      f"{what}: probability ratio != 1 before any parameter update: {rho64.tolist()}")
            ctx.event("ratio_one_checked")
        A64 = R64 - V64
        if case["normalize_adv"]:
            A64 = (A64 - A64.mean()) / (A64.std() + 1e-8)
        clipped = rho64.clamp(1 - eps, 1 + eps)
        surr64 = -torch.minimum(rho64 * A64, clipped * A64).mean()
        vl64 = huber64(V64, R64)
        ent64 = H64.mean()
        tot64 = surr64 + case["vf_lambda"] * vl64 - case["entropy_lambda"] * ent64
        # (the float32 sum of step log-probabilities inside exp() adds a relative error eps*sum_t|ll_t| to rho)
        scale = float((torch.maximum((rho64 * A64).abs(), (clipped * A64).abs()) *
                       (1 + (ll64.abs().sum(-1) + lp_old.double().abs()) * EPS32 / VAL_RTOL)).mean()) + \
            case["vf_lambda"] * float(vl64) + case["entropy_lambda"] * float(ent64.abs())
        if bool(((rho64 * A64) > (clipped * A64)).any()):
            ctx.event("clip_active")
        if bool((rho64 != clipped).any()):
            ctx.event("ratio_outside_range")
        detail = {"step": i, "rho": rho64, "A": A64, "V": V64, "R": R64, "H": H64, "loss": loss, "ref": tot64}
        # standardised advantages: (A - mean)/std in float32 loses about eps*cond, cond = max|A|/std of the raw
        # advantages of the mini-batch (a 2-row mini-batch with nearly equal advantages has cond ~ 1e3)
        rt = VAL_RTOL
        if case["normalize_adv"]:
            raw = R64 - V64
            rt = VAL_RTOL + 8 * EPS32 * (1 + float(raw.abs().max() / (raw.std() + 1e-8)))
        ctx.check(close(loss, tot64, scale, rt), f"loss_value|{sig}",
                  f"{what}: loss {float(loss):.8g} != clipped surrogate + vf_lambda*Huber - entropy_lambda*H = "
                  f"{float(tot64):.8g} (surrogate {float(surr64):.6g}, value {float(vl64):.6g}, entropy {float(ent64):.6g})",
                  detail)
        # gradient of the reference built on the captured graphs (ll, V, H), advantages detached
        Vs = V.squeeze(-1)

        def ref_fn(pert):
            A = (A64 if pert is None else A64 + pert).float()
            rho = torch.exp(ll.sum(-1) - lp_old)
            return -torch.minimum(rho * A, rho.clamp(1 - eps, 1 + eps) * A).mean() \
                + case["vf_lambda"] * torch.nn.functional.huber_loss(Vs, R) - case["entropy_lambda"] * H.mean()

        loose = max(1.0, rt / VAL_RTOL)
        amp = float(A64.abs().max() / (R64 - V64).abs().max().clamp_min(1e-12))
        compare_grads(ctx, named, loss, ref_fn, ulp_noise(A64, (R64.abs() + V64.abs()) * amp, loose), sig, what, loose)
        state["last"] = loss
        loss.backward()

    def clip_gradients(o, gradient_clip_val=None, gradient_clip_algorithm=None, **k):
        log.append(("clip", gradient_clip_val, gradient_clip_algorithm))

    model.optimizers = lambda *a, **k: opt
    model.manual_backward = manual_backward
    model.clip_gradients = clip_gradients

    n_mb = math.ceil(B / m_eff)
    for k, stp in enumerate([case] + ([case["second"]] if case.get("second") else [])):
        state.update(n=0, rows=0, last=None, start_n=opt.n)
        batch = gen_batch(env, B, stp["dseed"])
        torch.manual_seed(stp["sseed"])
        res = ctx.guard(model.shared_step, batch.clone(), k, "train", what="shared_step|ppo" + ("|second" if k else ""))
        ctx.check(state["n"] == case["ppo_epochs"] * n_mb and state["rows"] == case["ppo_epochs"] * B,
                  f"inner_steps|{sig}", f"{state['n']} inner steps / {state['rows']} rows for ppo_epochs "
                  f"{case['ppo_epochs']}, batch {B}, mini-batch {m_eff} (shared_step #{k})")
        ctx.check(state["last"] is not None and float(res["loss"]) == float(state["last"]), f"returned_loss|{sig}",
                  "shared_step does not return the last inner loss")
        if k:
            ctx.event("second_shared_step" + ("_after_parameter_change" if case["opt"] == "noise" else ""))
    Rall = torch.cat(state["Rall"][:n_mb])
    if case.get("large"):
        # counted by what the old log-likelihoods really are: all rows / some row below the float32 exp() range
        lo, hi = state["min_old_ll"], state["max_old_ll"]
        ctx.event("large_instance|" + ("ll<-87" if hi < LL_UNDERFLOW else "some_ll<-87" if lo < LL_UNDERFLOW
                                       else "ll>=-87"))
        if lo < -103.3:
            ctx.event("large_instance|some_ll<-103.3 (float32 exp() is exactly 0)")
        ctx.event(f"large_instance|env={case['env']}")
    ctx.event(f"mb={'full' if m_eff == B else 'partial'}")
    ctx.event(f"opt={case['opt']}")
    ctx.event(f"entropy={'on' if case['entropy_lambda'] else 'off'}")
    if B >= 3 and float(Rall.double().std()) > 1e-6:
        ctx.nontriv()
    ctx.sample({k_: case[k_] for k_ in ("env", "n", "B", "E", "L", "norm", "mb", "ppo_epochs", "clip", "vf_lambda",
                                        "entropy_lambda", "normalize_adv", "opt")})


# =========================================================================== RolloutBaseline.eval
def _drift(pol, amount, seed):
    if amount > 0:
        g = torch.Generator().manual_seed(seed)
        with torch.no_grad():
            for p in pol.parameters():
                p.add_(amount * p.abs().mean() * torch.randn(p.shape, generator=g))


def _same_params(a, b):
    """parameters and buffers (batch-norm running statistics move with every train-mode forward)"""
    sa, sb = a.state_dict(), b.state_dict()
    return sa.keys() == sb.keys() and all(torch.equal(sa[k], sb[k]) for k in sa)


def exec_rollout_eval(case, ctx):
    """REINFORCE.calculate_loss with the bundled RolloutBaseline consulted through eval() (no `extra`):
    b must be the *greedy* rollout of the frozen baseline policy (class docstring, Kool et al. 2019).
    With case['warm']: the same through the library default baseline="rollout" = WarmupBaseline(RolloutBaseline)."""
    if case.get("warm"):
        return exec_warm_rollout(case, ctx)
    from rl4co.models.rl import REINFORCE

    env = make_env(case)
    pol = make_policy(case)
    B = case["B"]
    model = REINFORCE(env, pol, baseline="rollout_only")
    frozen = copy.deepcopy(pol).eval()
    torch.manual_seed(case["eseed"])
    ctx.guard(model.baseline.setup, pol, env, batch_size=B, device="cpu", dataset_size=B, what="baseline.setup")
    pol.train()
    _drift(pol, case["drift"], case["wseed"] + 3)
    named = uniq_named(("policy", pol))
    batch = gen_batch(env, B, case["dseed"])
    td0 = env.reset(batch.clone())
    torch.manual_seed(case["sseed"])
    out = ctx.guard(pol, td0.clone(), env, phase="train", what="policy")
    R, ll = out["reward"], out["log_likelihood"]
    with torch.no_grad():
        b_ref = frozen(td0.clone(), env, decode_type="greedy")["reward"].double()
    out = ctx.guard(model.calculate_loss, td0.clone(), batch, out, what="calculate_loss|rollout_eval")
    sig = "rollout_eval"
    ctx.event("baseline=rollout_only")
    check_no_grad_inputs(ctx, sig, R, ll, out["bl_val"])
    got = out["bl_val"].detach().double()
    b64 = b_ref
    if not bool(((got - b_ref).abs() <= VAL_RTOL * (1 + b_ref.abs())).all()):
        # is it at least *a* rollout value that does not depend on the sampling RNG?
        ctx.violation("baseline_value|rollout_eval_not_greedy",
                      f"RolloutBaseline.eval returned {got.tolist()} but the greedy rollout of the frozen baseline "
                      f"policy gives {b_ref.tolist()}", {"bl_val": got, "greedy": b_ref})
        b64 = got  # known finding: go on with the value the library used
    check_surrogate(ctx, case, sig, out, named, R, ll, b64, 0.0, RefScaler(None), 0)
    mark(ctx, case, R, 1, False)
    ctx.sample({k_: case[k_] for k_ in ("env", "n", "B", "E", "L", "norm", "drift")})


def exec_warm_rollout(case, ctx):
    """baseline="rollout" (library default): b = alpha * greedy rollout of the frozen baseline policy
    + (1 - alpha) * EMA of the batch-mean rewards seen while alpha < 1; alpha = (epoch+1)/n_epochs after the callback of
    `epoch` (WarmupBaseline docstring: 'convex combination of baseline and exponential baseline').  The frozen policy is
    the snapshot taken at setup or, after a callback that accepted the challenger, the policy of that moment (which of the
    two is read from the library object and must be exactly one of them; the acceptance test itself is not judged here)."""
    from rl4co.models.rl import REINFORCE
    from rl4co.models.rl.reinforce.baselines import RolloutBaseline, WarmupBaseline

    w = case["warm"]
    env = make_env(case)
    pol = make_policy(case)
    B = case["B"]
    if w["via"] == "name":
        model = REINFORCE(env, pol, baseline="rollout",
                          baseline_kwargs=dict(n_epochs=w["n_epochs"], exp_beta=w["beta"], bl_alpha=w["bl_alpha"]))
    else:
        model = REINFORCE(env, pol, baseline=WarmupBaseline(RolloutBaseline(bl_alpha=w["bl_alpha"]),
                                                            n_epochs=w["n_epochs"], warmup_exp_beta=w["beta"]))
    bl = model.baseline
    ctx.check(isinstance(bl, WarmupBaseline) and isinstance(bl.baseline, RolloutBaseline) and bl.n_epochs == w["n_epochs"]
              and bl.warmup_baseline.beta == w["beta"] and bl.baseline.bl_alpha == w["bl_alpha"],
              "warm_rollout|construction", f"baseline='rollout' built {type(bl).__name__}({type(bl.baseline).__name__}), "
              f"n_epochs {bl.n_epochs}, beta {bl.warmup_baseline.beta}")
    frozen = copy.deepcopy(pol).eval()
    torch.manual_seed(case["eseed"])
    ctx.guard(bl.setup, pol, env, batch_size=B, device="cpu", dataset_size=2 * B, what="baseline.setup|warmup[rollout]")
    named = uniq_named(("policy", pol))
    ref = RefWarmup(None, w["n_epochs"], w["beta"])
    sig = "warmup[rollout]|eval"
    ctx.event(f"baseline=rollout|via={w['via']}")
    for k, stp in enumerate(w["steps"]):
        _drift(pol, stp["drift"], case["wseed"] + 3 + k)
        for _ in range(w["callbacks"][k]):
            ctx.guard(bl.epoch_callback, pol, env=env, batch_size=B, device="cpu", epoch=ref.epoch, dataset_size=2 * B,
                      what="epoch_callback|warmup[rollout]")
            ref.callback()
            if not _same_params(bl.baseline.policy, frozen):
                if not ctx.check(_same_params(bl.baseline.policy, pol), f"rollout_policy_unknown|{sig}",
                                 "after epoch_callback the baseline policy is neither the previous snapshot nor the "
                                 "challenger"):
                    return
                frozen = copy.deepcopy(pol).eval()
                ctx.event("challenger_accepted")
        ctx.check(bl.baseline.policy is not pol, f"rollout_policy_aliased|{sig}", "the baseline policy IS the trained policy")
        pol.train()  # (RolloutBaseline.rollout leaves the challenger in eval mode; Lightning re-enters train mode)
        alpha = ref.alpha
        ph = "0" if alpha == 0 else "1" if alpha == 1 else "interior"
        ctx.event(f"alpha={ph}|warmup[rollout]")
        ctx.check(float(bl.alpha) == alpha, f"warmup_alpha|{sig}", f"alpha {bl.alpha} after {ref.epoch} callbacks, "
                  f"n_epochs {w['n_epochs']}: expected {alpha}")
        batch = gen_batch(env, B, stp["dseed"])
        td0 = env.reset(batch.clone())
        torch.manual_seed(stp["sseed"])
        out = ctx.guard(pol, td0.clone(), env, phase="train", what="policy")
        R, ll = out["reward"], out["log_likelihood"]
        R64 = R.detach().double()
        with torch.no_grad():
            g64 = frozen(td0.clone(), env, decode_type="greedy")["reward"].double()
        if alpha == 1:
            b64 = g64
        else:
            e64 = torch.full_like(R64, ref.warm.ema(R64))
            b64 = e64 if alpha == 0 else alpha * g64 + (1 - alpha) * e64
        out = ctx.guard(model.calculate_loss, td0.clone(), batch, out, what=f"calculate_loss|warmup[rollout]|alpha={ph}")
        s2 = f"{sig}|alpha={ph}"
        check_no_grad_inputs(ctx, s2, R, ll, out["bl_val"])
        check_bl_val(ctx, s2, out["bl_val"], b64, R, k)
        ctx.check(not torch.is_tensor(out["bl_loss"]) or float(out["bl_loss"]) == 0.0, f"baseline_loss|{s2}",
                  f"bl_loss {out['bl_loss']} for a baseline without parameters")
        check_surrogate(ctx, case, s2, out, named, R, ll, b64, 0.0, RefScaler(None), k)
        mark(ctx, case, R, k + 1, False)
    ctx.sample({k_: case[k_] for k_ in ("env", "n", "B", "E", "L", "norm", "warm")})


# =========================================================================== minimiser
def _minimize(case):
    """candidates: fewer steps, smaller batch / graph / network, plain options"""
    if case.get("warm") and len(case["warm"]["steps"]) > 1:
        w = case["warm"]
        yield {**case, "warm": {**w, "steps": w["steps"][:-1], "callbacks": w["callbacks"][:-1]}}
    steps = case.get("steps")
    if steps and len(steps) > 1:
        per = [k_ for k_ in ("callbacks", "jumps", "between") if k_ in case]
        yield {**case, "steps": steps[:-1], **{k_: case[k_][:-1] for k_ in per}}
        yield {**case, "steps": steps[1:], **{k_: case[k_][1:] for k_ in per}}
    for key, lo in (("B", 3), ("B", 2), ("n", 4), ("L", 1), ("E", 16), ("H", 2)):
        if case.get(key, lo) > lo and "mb" not in case:
            c = {**case, key: lo}
            if "S" in c and c["S"]:
                c["S"] = min(c["S"], c["n"])
            yield c
    for key, val in (("reward_scale", None), ("spread", 1.0), ("env", "tsp"), ("norm", "instance"),
                     ("ppo_epochs", 1), ("opt", "noop"), ("entropy_lambda", 0.0), ("drift", 0.0)):
        if key in case and case[key] != val:
            yield {**case, key: val}


SUBS = [
    Sub("reinforce", _dropout_guard(exec_reinforce), strategy=lambda tier: reinforce_cases(tier),
        budget={"quick": 960, "thorough": 4000}, shards=16, shrink=False, minimize=_minimize, weight=3.0),
    Sub("pomo", _dropout_guard(exec_pomo), strategy=lambda tier: pomo_cases(tier),
        budget={"quick": 288, "thorough": 1200}, shards=8, shrink=False, minimize=_minimize),
    Sub("symnco", _dropout_guard(exec_symnco), strategy=lambda tier: symnco_cases(tier),
        budget={"quick": 288, "thorough": 1200}, shards=8, shrink=False, minimize=_minimize),
    Sub("a2c", _dropout_guard(exec_a2c), strategy=lambda tier: a2c_cases(tier),
        budget={"quick": 144, "thorough": 600}, shards=4, shrink=False, minimize=_minimize),
    Sub("ppo", _dropout_guard(exec_ppo), strategy=lambda tier: ppo_cases(tier),
        budget={"quick": 288, "thorough": 1200}, shards=8, shrink=False, minimize=_minimize, weight=2.0),
    # the large-instance class of `ppo` alone (same executor): a guaranteed number of cases per run
    Sub("ppo_large", _dropout_guard(exec_ppo), strategy=lambda tier: ppo_large_cases(),
        budget={"quick": 24, "thorough": 160}, shards=4, shrink=False, minimize=_minimize),
    Sub("rollout_eval", _dropout_guard(exec_rollout_eval), strategy=lambda tier: rollout_eval_cases(tier),
        budget={"quick": 144, "thorough": 800}, shards=8, shrink=False, minimize=_minimize),
    # zoo models with their own loss / rollout layout (vf/c16_zoo_loss.py)
    Sub("zoo_loss", _dropout_guard(_zoo.exec_zoo), strategy=lambda tier: _zoo.zoo_cases(tier),
        budget={"quick": 288, "thorough": 1200}, shards=8, shrink=False, minimize=_zoo.minimize_zoo, weight=2.0),
    # the two further bundled PPO implementations (vf/c16_ppo_variants.py)
    Sub("stepwise_ppo", _dropout_guard(_ppov.exec_stepwise), strategy=lambda tier: _ppov.stepwise_cases(tier),
        budget={"quick": 288, "thorough": 1200}, shards=8, shrink=False, minimize=_ppov.minimize_stepwise, weight=2.0),
    Sub("nstep_ppo", _dropout_guard(_ppov.exec_nstep), strategy=lambda tier: _ppov.nstep_cases(tier),
        budget={"quick": 288, "thorough": 1200}, shards=8, shrink=False, minimize=_ppov.minimize_nstep, weight=2.0),
]
