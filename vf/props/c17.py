"""C17 — datasets, collation and baseline wrapping preserve instance identity and order.

Targets rl4co.data.dataset (TensorDictDataset, FastTdDataset, TensorDictDatasetFastGeneration,
ExtraKeyDataset, add_key, collate_fn), RL4COLitModule._dataloader/_dataloader_single, env.dataset and
RolloutBaseline.setup/rollout/wrap_dataset (directly and through REINFORCE + WarmupBaseline) under drawn
train()/eval() mode histories, RL4COLitModule.setup + train_/val_/test_dataloader for every phase, the real epoch
hooks REINFORCE.on_train_epoch_end / RL4COLitModule.on_train_epoch_end over several epochs (vf/c17_hooks.py), MDAM's
replacement rollout, and loaders with worker processes.

Oracles
  * loader round trip: every batch row is compared bit-for-bit (bytes, dtype, shape) with the row of a
    *cloned* original selected by the hidden `id` key that travels through the same path; sequence of ids
    is 0..N-1 (no shuffle) or a permutation of it (shuffle); ceil(N/bs) batches, last one partial.
  * env datasets: the original instances are env.generator(N) under the same torch seed; rows are
    identified by a content fingerprint over all keys.
  * rollout baseline: extra[i] vs. the greedy reward of an independent snapshot of the baseline policy on
    instance i decoded SOLO (batch of one) in eval mode with decode_type="greedy" passed explicitly (whatever the
    policy's train/val/test_decode_type constructor options say); argmax-stability rule: an instance whose solo decode
    has a top-2 log-prob gap <= 1e-4 at some step is don't-care when the values differ. The snapshot is taken
    before setup and never sees the mode switches applied to the module / baseline / actor.
  * module phases: the originals of a phase are the npz files configured on the env for that phase or the
    generator output of the phase's configured size; val and test loaders must return them in the original order,
    the train loader a permutation (identity without shuffle_train_dataloader), batch sizes as configured.
"""
import copy
import logging
import math

import hypothesis.strategies as st
import torch

from ..c17_hooks import execute_hooks, execute_mdam, hook_cases, mdam_cases
from ..runner import SkipCase, Sub

PROPERTY = "C17"
RULE = (
    "loader_roundtrip: TensorDict with 1-4 keys (float32/float64/int64/int32/bool; trailing shape scalar, 1-D, 2-D), "
    "N 1..40, row-tagged content + hidden int64 `id`; dataset class in {TensorDictDataset, FastTdDataset, "
    "TensorDictDatasetFastGeneration, ExtraKeyDataset(direct)}, extra key via add_key on/off, batch size 1..N+2, "
    "shuffle on/off (torch seed from case), loader = torch DataLoader(collate_fn=dataset.collate_fn) or "
    "RL4COLitModule._dataloader/_dataloader_single; second pass after in-place modification of the first pass' "
    "batches. env_dataset: env.dataset(N) of 14 envs x dataset_cls through the module loaders (single / dict). "
    "rollout_wrap: tiny AttentionModelPolicy (embed 16/32, 1 layer, parameters x{1,1.25,1.5}; larger factors saturate "
    "the tanh clipping into exact ties) on tsp/cvrp (4-8 nodes), RolloutBaseline set up "
    "directly or through REINFORCE(baseline='rollout')+epoch_callback, evaluation batch size drawn (mostly not "
    "dividing N), training policy perturbed after the snapshot; the policy has mode-dependent layers (batch norm = "
    "constructor default, fresh or 'trained' running statistics; optionally a dropout layer behind the initial "
    "embedding, with batch or instance norm); the actor is handed over in train or eval mode; three drawn mode "
    "histories (0-3 recursive .train()/.eval() calls on the Lightning module [direct mode: baseline and actor], the "
    "baseline module or the actor; [] and ['model.train'] = Trainer.fit boosted) are replayed after setup, after "
    "epoch_callback and between the first and a second wrap_dataset; the second wrap is of a new set made of a drawn "
    "selection (permutation prefix or selection with repeats) of the first set's instances with its own evaluation "
    "batch size (direct mode), value j checked against the solo value of instance sel[j]; after every wrap the "
    "actor's and the baseline policy's state_dict (parameters and buffers) must be unchanged. "
    "module_phases: TSPEnv with a recording generator and/or npz files per phase (train: generated|train_file; "
    "val/test: generated|one file|list of 1-3 files = dict of named datasets, names given or default), 1-3 keys + "
    "hidden id, N 1..16 per dataset (generated phases have pairwise distinct sizes), dataset_cls drawn, "
    "REINFORCE(baseline='no') or bare RL4COLitModule with batch_size int, val_batch_size/test_batch_size in "
    "{None (documented fall-back), int, list per dataset}, shuffle_train_dataloader on/off, dataloader_num_workers=0; "
    "setup() then train_/val_/test_dataloader() in a drawn order with up to 2 repeated calls (a repeated train call "
    "first renews the train set the way on_train_epoch_end does); loaded batches are modified in place after "
    "verification; a phase may also name a file that does not exist (documented fall-back: generated instances of "
    "the configured size); a repeated train call runs the real on_train_epoch_end with a stub trainer (max_epochs 1-4, "
    "current_epoch = number of train epochs done): the train set is renewed unless that was the last epoch. "
    "loader_roundtrip also re-wraps the already wrapped dataset under ANOTHER key name (new key = new values; the old "
    "key, if it still travels, keeps its own item's value). loader_workers: the loader round trip with "
    "dataloader_num_workers 1-2 (forked workers, N <= 9). env_dataset: 19 envs (mtvrp, spctsp, mdcpdp, flp, mcp added). "
    "epoch_hooks (vf/c17_hooks.py): REINFORCE(baseline='rollout', n_epochs 1-3, bl_alpha 1/0.5/0.05) set up without "
    "Trainer, stub trainer (max_epochs 2-5), 1-4 real on_train_epoch_end calls from epoch e0 in {0, 1, n_epochs, "
    "n_epochs+1} with the actor perturbed before each; after every call: baseline policy = previous snapshot or copy "
    "of the actor, renewed evaluation set of val_data_size, alpha = (e+1)/n_epochs capped at 1, a new train set of "
    "train_data_size from the recorded generator wrapped with extra[i] = solo greedy reward of the CURRENT baseline "
    "policy on instance i, untouched train set after the last epoch, train_dataloader serving exactly that set. "
    "mdam_wrap: MDAM(baseline='rollout') (2-3 decoder paths) - baseline values and extra of the hook-renewed train set "
    "= best-path greedy reward of an independent copy of the baseline policy (float32 vs float64 stability rule). "
    "rollout_wrap / epoch_hooks: the policy is built with the constructor options train_decode_type / val_decode_type / "
    "test_decode_type, each drawn in {greedy, sampling} with the library default (sampling, greedy, greedy) as the most "
    "frequent value of each option; the oracle stays the harness' own decode_type='greedy' decode of the frozen copy "
    "(events decode_types=library_default|non_default, <phase>_decode_type=<non-default value>). "
    "Non-trivial = final partial batch (N % bs != 0) "
    "and, for the loader subs, shuffle on with an extra key; for rollout_wrap additionally >=1 decisive instance; for "
    "module_phases shuffle_train_dataloader on and a val/test dataset with N >= 3 and a final partial batch. "
    "Distinct = distinct case hash."
)
ASSUMPTIONS = [
    "instances carry no NaN (bit equality is asserted on bytes; content is constructed, not filtered)",
    "len(extra) == len(dataset) (the library asserts it); extra is a tensor with leading dimension N",
    "a batch must be a TensorDict with batch_size [b] because shared_step/rollout pass it to env.reset",
    "env.generator is a deterministic function of the global torch RNG (used to recover the original instances "
    "of env.dataset); verified for the 14 envs used",
    "rollout oracle: independent deepcopy of the policy taken before baseline.setup, eval mode, greedy, batch of "
    "one; equality to 1e-5*(1+|r|) asserted only for instances whose solo decode is decisive (top-2 gap > 1e-4)",
    "the rollout baseline is a GREEDY rollout (class docstring 'use greedy rollout as baseline', property text "
    "'greedy-rollout baseline value'): bl_vals and the values wrap_dataset attaches are greedy rewards of the frozen "
    "baseline policy also when the policy was built with non-greedy train/val/test_decode_type (those govern the "
    "policy's own train / validation / test forward passes, not the baseline evaluation; on the unchanged tree "
    "RolloutBaseline.rollout passes decode_type='greedy' explicitly). MDAMPolicy does not forward these constructor "
    "options (they end up in the decoder's kwargs): not drawn for mdam_wrap",
    "RL4COLitModule._dataloader with a *list* of datasets and REINFORCE(baseline='rollout_only').setup() crash on "
    "the unchanged tree; recorded as observations (events) only, by decision of the lead",
    "dataloader_num_workers = 0 (library default) except in the loader_workers sub (1-2 forked workers; tiny "
    "datasets, because every pass forks the check process)",
    "epoch_hooks / module_phases drive the hooks through a stub `module.trainer` exposing max_epochs and current_epoch "
    "(all that REINFORCE.on_train_epoch_end / RL4COLitModule.on_train_epoch_end read; get_lightning_device falls back "
    "to module.device); documented: 'If last epoch, we don't need to update' and WarmupBaseline's schedule incl. "
    "'warmup is over, also if the callback of the last warmup epoch was never seen'; the float32-mean / float64-t "
    "sign assertion of RolloutBaseline.epoch_callback is excluded as in rollout_wrap",
    "a float64 baseline policy is outside the domain: RolloutBaseline.setup evaluates it on float32 instances from "
    "env.dataset (dtype error on the unchanged tree), so `extra` is float32 everywhere",
    "mdam_wrap stability rule: an instance whose best-path reward differs between the float32 policy and its float64 "
    "copy by more than 1e-5*(1+|r|) is a numerical near-tie (don't-care on mismatch)",
    "rollout_wrap mode histories: nn.Module.train(mode)/eval() called on the REINFORCE module, the baseline module or "
    "the actor are ordinary user / Trainer actions; they change no parameter, so the baseline policy's greedy reward "
    "on instance i (eval-mode forward of the frozen copy) is the same before and after them. The dropout variant "
    "wraps policy.encoder.init_embedding in nn.Sequential(init_embedding, nn.Dropout(0.3)) (AttentionModelPolicy "
    "has no dropout option)",
    "wrap_dataset is not given the actor: its state_dict must be bit-identical before and after; an eval-mode "
    "evaluation leaves the baseline policy's state_dict (incl. batch-norm statistics) bit-identical to the snapshot",
    "module_phases: val_batch_size None -> batch_size, test_batch_size None -> val_batch_size (class docstring); a "
    "list of batch sizes is only used with as many datasets (otherwise the library asserts: outside the domain); "
    "datasets reach the module through env.dataset(size, phase) only (generator or train_file/val_file/test_file); "
    "a plain *list* of datasets handed to _dataloader raises on the unchanged tree (DESIGN observation O5) and is "
    "kept out of the asserted domain (counted by the observations sub); dict names are asserted when configured, "
    "only their count when defaulted; that shuffling actually permutes is not asserted (not part of C17)",
    "module_phases: npz files are only the transport to env.dataset (persistence itself is C19); scratch "
    "directories live under tempfile.gettempdir() and are removed at the end of every case",
]
TIME_CAP = {"quick": 300, "thorough": 2400}

DT = {"f32": torch.float32, "f64": torch.float64, "i64": torch.int64, "i32": torch.int32, "bool": torch.bool}
GAP = 1e-4


def preimport():
    _quiet()
    import rl4co.envs  # noqa
    import rl4co.models  # noqa
    from rl4co.models.rl.reinforce import baselines  # noqa


def _quiet():
    logging.getLogger("rl4co").setLevel(logging.CRITICAL)
    logging.getLogger("lightning").setLevel(logging.ERROR)
    logging.getLogger("lightning.pytorch").setLevel(logging.ERROR)


# --------------------------------------------------------------------------- shared helpers
_LIT = {}


def _lit():
    """One trainer-free Lightning module per process; only its loader methods are used."""
    if "m" not in _LIT:
        _quiet()
        from rl4co.envs import TSPEnv
        from rl4co.models import REINFORCE, AttentionModelPolicy

        st_ = torch.get_rng_state()
        env = TSPEnv(generator_params={"num_loc": 5})
        pol = AttentionModelPolicy(env_name="tsp", embed_dim=16, num_encoder_layers=1, num_heads=2,
                                   feedforward_hidden=32)
        _LIT["m"] = REINFORCE(env, pol, baseline="no", batch_size=4, train_data_size=4, val_data_size=2,
                              test_data_size=2)
        torch.set_rng_state(st_)
    return _LIT["m"]


def _bytes(t):
    return t.detach().contiguous().cpu().numpy().tobytes()


def _dataset_cls(name):
    from rl4co.data import dataset as D

    return {"tdd": D.TensorDictDataset, "fast": D.FastTdDataset, "fastgen": D.TensorDictDatasetFastGeneration}[name]


def _lit_workers(w):
    """Trainer-free module configured with dataloader_num_workers=w (loader methods only)."""
    if w == 0:
        return _lit()
    if ("w", w) not in _LIT:
        from rl4co.envs import TSPEnv
        from rl4co.models.rl.common.base import RL4COLitModule

        _LIT[("w", w)] = RL4COLitModule(TSPEnv(generator_params={"num_loc": 5}), torch.nn.Identity(), batch_size=4,
                                        train_data_size=4, val_data_size=2, test_data_size=2, dataloader_num_workers=w)
    return _LIT[("w", w)]


def _make_loader(ctx, kind, ds, bs, shuffle, workers=0):
    from torch.utils.data import DataLoader

    if kind == "torch":
        return ctx.guard(DataLoader, ds, batch_size=bs, shuffle=shuffle, collate_fn=ds.collate_fn, num_workers=workers,
                         what="DataLoader")
    if kind == "module":
        return ctx.guard(_lit_workers(workers)._dataloader, ds, bs, shuffle, what="_dataloader")
    return ctx.guard(_lit_workers(workers)._dataloader_single, ds, bs, shuffle, what="_dataloader_single")


def _batch_shape_ok(ctx, batches, N, bs, tag):
    """ceil(N/bs) TensorDict batches, all of size bs except a final partial one."""
    from tensordict import TensorDictBase

    nb = math.ceil(N / bs)
    if not ctx.check(len(batches) == nb, f"num_batches|{tag}",
                     f"N={N} bs={bs}: got {len(batches)} batches, expected ceil(N/bs)={nb}"):
        return False
    for bi, b in enumerate(batches):
        want = bs if bi < nb - 1 else N - bs * (nb - 1)
        if not ctx.check(isinstance(b, TensorDictBase), f"batch_type|{tag}",
                         f"batch {bi} is a {type(b).__name__}, not a TensorDict"):
            return False
        if not ctx.check(tuple(b.batch_size) == (want,), f"batch_size|{tag}",
                         f"batch {bi} has batch_size {tuple(b.batch_size)}, expected ({want},) (N={N}, bs={bs})"):
            return False
    return True


def _mutate_in_place(batches):
    """What env.reset / user code may do to a loaded batch; the dataset must not be affected."""
    with torch.no_grad():
        for b in batches:
            for k in list(b.keys()):
                t = b[k]
                if t.dtype == torch.bool:
                    t.logical_not_()
                else:
                    t.add_(1)


# --------------------------------------------------------------------------- A. loader round trip
def _col(dt, N, shape, seed):
    """Row-tagged column: row i is recognisable (except bool) and values stress dtype casts."""
    g = torch.Generator().manual_seed(seed)
    full = (N, *shape)
    rows = torch.arange(N).view(N, *([1] * len(shape)))
    if dt == "f32":
        v = (rows + torch.rand(full, generator=g)).to(torch.float32)
    elif dt == "f64":
        v = rows.double() + torch.rand(full, generator=g, dtype=torch.float64)  # not representable in float32
    elif dt == "i64":
        v = torch.randint(-2 ** 56, 2 ** 56, full, generator=g) * 64 + rows  # beyond float64 integers
    elif dt == "i32":
        v = (torch.randint(-2 ** 24, 2 ** 24, full, generator=g) * 64 + rows).to(torch.int32)
    else:
        v = torch.randint(0, 2, full, generator=g).bool()
    return v.contiguous()


_SHAPES = st.one_of(st.just([]), st.lists(st.integers(1, 4), min_size=1, max_size=2))


def _bs(draw, N):
    nondiv = [b for b in range(2, N) if N % b]
    opts = [st.integers(1, N + 2), st.integers(0, N + 1).map(lambda k: N + 2 - k)]
    if nondiv:
        opts += [st.sampled_from(nondiv)] * 3
    return draw(st.one_of(*opts))


@st.composite
def cases_a(draw, tier="quick"):
    N = draw(st.one_of(st.integers(1, 40), st.integers(1, 9)))
    keys = draw(st.lists(st.fixed_dictionaries({"dt": st.sampled_from(["f32", "f32", "f64", "i64", "i32", "bool"]),
                                                "shape": _SHAPES}), min_size=1, max_size=4))
    cls = draw(st.sampled_from(["fast", "tdd", "fastgen", "extrakey", "tdd"]))
    has_extra = cls == "extrakey" or draw(st.sampled_from([True, True, False]))
    extra = None
    if has_extra:
        extra = {"dt": draw(st.sampled_from(["f32", "f32", "f32", "f64", "i64"])),
                 "shape": draw(st.sampled_from([[], [], [], [2], [1]])),
                 "name": draw(st.sampled_from(["extra", "extra", "extra", "bl_val"]))}
    return dict(N=N, keys=keys, cls=cls, extra=extra, bs=_bs(draw, N), shuffle=draw(st.sampled_from([True, False, True])),
                loader=draw(st.sampled_from(["torch", "torch", "module", "module_single"])),
                rekey=draw(st.sampled_from(["same", "same", "other"])),
                id_pos=draw(st.integers(0, len(keys))), seed=draw(st.integers(0, 2 ** 20)))


@st.composite
def cases_workers(draw, tier="quick"):
    """(12) dataloader_num_workers > 0: the loader round trip of cases_a on tiny datasets, items fetched and collated in
    forked worker processes (the dataset object is copied into every worker by fork)."""
    c = draw(cases_a(tier))
    N = draw(st.integers(2, 9))
    c.update(N=N, bs=_bs(draw, N), workers=draw(st.sampled_from([1, 2, 2])),
             loader=draw(st.sampled_from(["module", "module", "module_single", "torch"])))
    return c


def _verify_ids(ctx, batches, src, N, shuffle, tag, extra_name=None, optional=()):
    """Every row of every key equals the original row selected by the travelling `id`.  Keys in `optional` may be
    absent from a batch; where present they must carry the values of `src` like any other key."""
    ids_all = []
    must = set(src) - set(optional)
    for bi, b in enumerate(batches):
        got_keys = set(b.keys())
        if not ctx.check(must <= got_keys <= set(src), f"keys|{tag}",
                         f"batch {bi} has keys {sorted(got_keys)}, expected {sorted(must)}"
                         + (f" (optionally {sorted(optional)})" if optional else "")):
            return
        want_keys = got_keys
        ids = b["id"]
        ok = ids.dtype == torch.int64 and ids.dim() == 1 and bool(((ids >= 0) & (ids < N)).all())
        if not ctx.check(ok, f"id_corrupt|{tag}",
                         f"batch {bi}: int64 id column with values in 0..{N - 1} came back as {ids.dtype} "
                         f"{tuple(ids.shape)} values {ids.reshape(-1)[:6].tolist()}"
                         + (" (second pass, after modifying the first pass' batches in place: the loaded batches "
                            "alias the dataset storage)" if tag.startswith("reread") else ""), {"id": ids}):
            return
        for k in sorted(want_keys):
            exp = src[k][ids]
            got = b[k]
            if not ctx.check(got.dtype == exp.dtype, f"dtype|{tag}",
                             f"key {k}: dtype {got.dtype} came back, original is {exp.dtype}"):
                return
            if not ctx.check(tuple(got.shape) == tuple(exp.shape), f"shape|{tag}",
                             f"key {k}: shape {tuple(got.shape)} came back, expected {tuple(exp.shape)}"):
                return
            if _bytes(got) != _bytes(exp):
                bad = [r for r in range(len(ids)) if _bytes(got[r]) != _bytes(exp[r])]
                ctx.violation(f"{'extra_misaligned' if k == extra_name else 'value'}|{tag}",
                              f"key {k}, batch {bi}: rows {bad[:5]} differ from the original rows id={ids[bad[:5]].tolist()}",
                              {"got": got[bad[:3]], "expected": exp[bad[:3]]})
                return
        ids_all.append(ids)
    cat = torch.cat(ids_all) if ids_all else torch.empty(0, dtype=torch.int64)
    if shuffle:
        ctx.check(torch.equal(cat.sort().values, torch.arange(N)), f"multiset|{tag}",
                  "shuffled pass does not return every instance exactly once", {"ids": cat})
    else:
        ctx.check(torch.equal(cat, torch.arange(N)), f"order|{tag}",
                  "sequential pass does not return the instances in the original order", {"ids": cat})


def execute_a(case, ctx):
    from rl4co.data.dataset import ExtraKeyDataset, TensorDictDataset
    from tensordict import TensorDict

    _quiet()
    N, bs, shuffle, cls = case["N"], case["bs"], case["shuffle"], case["cls"]
    cols = {}
    order = [f"k{j}" for j in range(len(case["keys"]))]
    order.insert(case["id_pos"], "id")
    for name in order:
        if name == "id":
            cols["id"] = torch.arange(N)
        else:
            j = int(name[1:])
            spec = case["keys"][j]
            cols[name] = _col(spec["dt"], N, spec["shape"], case["seed"] * 8 + j)
    orig = {k: v.clone() for k, v in cols.items()}
    td = TensorDict({k: v.clone() for k, v in cols.items()}, batch_size=[N])
    ex = case["extra"]
    tag = f"{cls}|extra={int(ex is not None)}"
    src = dict(orig)
    ename = None
    if ex is not None:
        ename = ex["name"]
        evals = _col(ex["dt"], N, ex["shape"], case["seed"] * 8 + 7)
        src[ename] = evals.clone()

    if cls == "extrakey":
        base = ctx.guard(TensorDictDataset, td, what="TensorDictDataset")
        ds = ctx.guard(ExtraKeyDataset, base, evals, key_name=ename, what="ExtraKeyDataset")
    else:
        ds = ctx.guard(_dataset_cls(cls), td, what=f"dataset|{cls}")
        if ex is not None:
            ds = ctx.guard(ds.add_key, ename, evals, what=f"add_key|{cls}")
    ctx.check(len(ds) == N, f"len|{tag}", f"len(dataset)={len(ds)} for {N} instances")

    workers = case.get("workers", 0)

    def one_pass():
        torch.manual_seed(case["seed"])
        dl = _make_loader(ctx, case["loader"], ds, bs, shuffle, workers)
        if workers:
            ctx.check(dl.num_workers == workers, f"num_workers|{tag}",
                      f"loader has num_workers={dl.num_workers}, dataloader_num_workers={workers} was configured")
        return ctx.guard(list, dl, what=f"iterate|{cls}")

    batches = one_pass()
    if not _batch_shape_ok(ctx, batches, N, bs, tag):
        return
    _verify_ids(ctx, batches, src, N, shuffle, tag, ename)
    # a loaded batch is the caller's to modify (env.reset writes into it): the next pass must be unaffected
    _mutate_in_place(batches)
    again = one_pass()
    if _batch_shape_ok(ctx, again, N, bs, "reread|" + tag):
        _verify_ids(ctx, again, src, N, shuffle, "reread|" + tag, ename)

    # re-wrapping: a training set that is kept across epochs is wrapped again with the new baseline values
    # (RolloutBaseline.wrap_dataset -> dataset.add_key("extra", ...)) after it has already been read: the new
    # values must be the ones that come out
    if ex is not None and cls in ("tdd", "fast", "fastgen", "default", "extrakey") and hasattr(ds, "add_key") is not None:
        base_ds = getattr(ds, "dataset", ds)
        if hasattr(base_ds, "add_key"):
            evals2 = _col(ex["dt"], N, ex["shape"], case["seed"] * 8 + 5)
            if evals2.dtype != torch.bool:
                evals2 = evals2 + evals2.new_ones(()) if evals2.dtype.is_floating_point else evals2 + 1
            # (H8) ... under the same key name, or under ANOTHER key name on the already wrapped dataset: the new key
            # carries the new values; the old key, should it still travel with the items (shared item dicts / the
            # in-place TensorDictDatasetFastGeneration), must still carry its own item's old value
            rekey = case.get("rekey", "same")
            name2 = ename if rekey == "same" else ("bl_new" if ename != "bl_new" else "extra2")
            ds2 = ctx.guard(base_ds.add_key, name2, evals2.clone(), what=f"add_key_again|{cls}")
            src2 = dict(src)
            src2[name2] = evals2.clone()
            ds_prev, ds = ds, ds2
            third = one_pass()
            t3 = ("rewrap|" if rekey == "same" else "rewrap_other_key|") + tag
            if _batch_shape_ok(ctx, third, N, bs, t3):
                _verify_ids(ctx, third, src2, N, shuffle, t3, name2, optional=() if rekey == "same" else (ename,))
                if rekey != "same" and third:
                    ctx.event(f"old_key_{'still_present' if ename in third[0].keys() else 'gone'}_after_rekey|{cls}")
            ds = ds_prev
            ctx.event("rewrapped_with_new_extra" + ("" if rekey == "same" else "_under_other_key"))

    partial = N % bs != 0
    ctx.event(f"cls={cls}")
    ctx.event(f"type={type(ds).__name__}")
    ctx.event(f"shuffle={int(shuffle)}")
    ctx.event(f"extra={int(ex is not None)}")
    ctx.event(f"partial_last_batch={int(partial)}")
    ctx.event(f"loader={case['loader']}")
    if workers:
        ctx.event(f"workers={workers}|{cls}|extra={int(ex is not None)}")
    ctx.event("bs>N" if bs > N else ("bs=1" if bs == 1 else "1<bs<=N"))
    ctx.event("dtypes=" + "+".join(sorted({k["dt"] for k in case["keys"]})))
    ctx.event("shapes=" + "+".join(sorted({str(len(k["shape"])) + "d" for k in case["keys"]})))
    if partial and shuffle and ex is not None:
        ctx.nontriv()
    ctx.sample({k: case[k] for k in ("N", "bs", "cls", "shuffle", "extra", "loader", "keys")})


# --------------------------------------------------------------------------- content-identified verification
def _fingerprints(cols, n):
    keys = sorted(cols)
    return [b"|".join(_bytes(cols[k][i]) for k in keys) for i in range(n)]


def _verify_content(ctx, batches, ref, N, shuffle, tag, extra=None, extra_name="extra", allow_extra=False):
    """Rows are identified by the bytes of all original keys; returns the original index of every loaded row."""
    index = {}
    for i, fp in enumerate(_fingerprints(ref, N)):
        index.setdefault(fp, []).append(i)
    want = set(ref) | ({extra_name} if extra is not None else set())
    found = []
    for bi, b in enumerate(batches):
        got_keys = set(b.keys())
        okk = got_keys == want or (allow_extra and got_keys == want | {extra_name})
        if not ctx.check(okk, f"keys|{tag}", f"batch {bi} has keys {sorted(got_keys)}, expected {sorted(want)}"):
            return None
        nb = b.batch_size[0]
        for k in sorted(ref):
            if not ctx.check(b[k].dtype == ref[k].dtype, f"dtype|{tag}",
                             f"key {k}: dtype {b[k].dtype} came back, original is {ref[k].dtype}"):
                return None
            if not ctx.check(tuple(b[k].shape) == (nb, *ref[k].shape[1:]), f"shape|{tag}",
                             f"key {k}: shape {tuple(b[k].shape)} came back, expected {(nb, *ref[k].shape[1:])}"):
                return None
        fps = _fingerprints({k: b[k] for k in ref}, nb)
        for r, fp in enumerate(fps):
            lst = index.get(fp)
            if not lst:
                ctx.violation(f"value|{tag}", f"batch {bi} row {r} is not (or no longer) one of the original instances "
                                              f"(altered values, rows of different instances mixed, or a duplicate)",
                              {"row": {k: b[k][r] for k in sorted(ref)}})
                return None
            j = lst.pop(0)
            found.append(j)
            if extra is not None:
                g, e = b[extra_name][r], extra[j]
                if not ctx.check(g.dtype == e.dtype and _bytes(g) == _bytes(e), f"extra_misaligned|{tag}",
                                 f"batch {bi} row {r} is instance {j} but carries extra={g.tolist()} instead of "
                                 f"extra[{j}]={e.tolist()}"):
                    return None
    if shuffle:
        ctx.check(sorted(found) == list(range(N)), f"multiset|{tag}",
                  "shuffled pass does not return every instance exactly once", {"found": found})
    else:
        ctx.check(found == list(range(N)), f"order|{tag}",
                  "sequential pass does not return the instances in the original order", {"found": found})
    return found


# --------------------------------------------------------------------------- A2. env.dataset through the module
ENVS = ["tsp", "cvrp", "sdvrp", "cvrptw", "op", "pctsp", "pdp", "atsp", "mtsp", "svrp", "ffsp", "smtwtp", "jssp",
        "fjsp", "mtvrp", "spctsp", "mdcpdp", "flp", "mcp"]
SIZED = {"tsp", "cvrp", "sdvrp", "op", "pctsp", "pdp", "atsp", "mtsp", "svrp", "mtvrp", "spctsp"}


@st.composite
def cases_env(draw, tier="quick"):
    env = draw(st.sampled_from(ENVS + ["tsp", "cvrp"]))
    N = draw(st.integers(1, 24))
    n = draw(st.sampled_from([4, 6, 7, 10]))
    if env == "pdp":
        n = draw(st.sampled_from([4, 6, 10]))
    return dict(env=env, num_loc=n, N=N, bs=_bs(draw, N), shuffle=draw(st.booleans()),
                dcls=draw(st.sampled_from(["default", "default", "tdd", "fast", "fastgen"])),
                phase=draw(st.sampled_from(["train", "val", "test"])),
                bs_form=draw(st.sampled_from(["int", "list"])),
                loader=draw(st.sampled_from(["module", "module_single", "dict", "dict_bslist"])),
                extra=draw(st.booleans()), N2=draw(st.integers(1, 6)), bs2=draw(st.integers(1, 7)),
                seed=draw(st.integers(0, 2 ** 20)))


def _get_env(name, num_loc, dcls):
    from rl4co.envs import get_env

    kw = {}
    if name in SIZED:
        kw["generator_params"] = {"num_loc": num_loc}
    if name == "mtvrp":  # (the generator needs a variant preset)
        kw["generator_params"]["variant_preset"] = "all" if num_loc % 2 else "vrptw"
    if dcls != "default" and name != "ffsp":  # FFSPEnv fixes dataset_cls=FastTdDataset itself
        kw["dataset_cls"] = _dataset_cls(dcls)
    return get_env(name, **kw)


def _gen_and_dataset(ctx, env, N, phase, seed, form="int"):
    """The original instances of env.dataset(N): the generator under the same seed."""
    torch.manual_seed(seed)
    ref_td = env.generator(N)
    ref = {k: ref_td[k].clone() for k in ref_td.keys()}
    torch.manual_seed(seed)
    ds = ctx.guard(env.dataset, N if form == "int" else [N], phase=phase, what=f"env.dataset|{env.name}")
    return ref, ds


def execute_env(case, ctx):
    _quiet()
    N, bs, shuffle = case["N"], case["bs"], case["shuffle"]
    env = _get_env(case["env"], case["num_loc"], case["dcls"])
    ref, ds = _gen_and_dataset(ctx, env, N, case["phase"], case["seed"], case["bs_form"])
    tag = f"{case['env']}|{type(ds).__name__}|extra={int(case['extra'])}"
    ctx.check(len(ds) == N, f"len|{tag}", f"len(env.dataset({N}))={len(ds)}")
    extra = None
    if case["extra"]:
        extra = _col("f32", N, [], case["seed"] + 1)
        ds = ctx.guard(ds.add_key, "extra", extra.clone(), what="add_key")
    m = _lit()
    torch.manual_seed(case["seed"] + 2)
    if case["loader"].startswith("dict"):
        # what env.dataset returns for several val/test files: {name: dataset}
        ref2, ds2 = _gen_and_dataset(ctx, env, case["N2"], case["phase"], case["seed"] + 3)
        bsz = [bs, case["bs2"]] if case["loader"] == "dict_bslist" else bs
        dls = ctx.guard(m._dataloader, {"first": ds, "second": ds2}, bsz, shuffle, what="_dataloader|dict")
        ctx.check(isinstance(dls, list) and len(dls) == 2, f"dict_loaders|{tag}", "expected one loader per dataset")
        ctx.check(m.dataloader_names == ["first", "second"], f"dict_names|{tag}",
                  f"dataloader_names={m.dataloader_names}")
        batches = ctx.guard(list, dls[0], what="iterate")
        b2 = ctx.guard(list, dls[1], what="iterate")
        bs_second = case["bs2"] if case["loader"] == "dict_bslist" else bs
        if _batch_shape_ok(ctx, b2, case["N2"], bs_second, "second|" + tag):
            _verify_content(ctx, b2, ref2, case["N2"], shuffle, "second|" + tag)
    else:
        dl = _make_loader(ctx, case["loader"], ds, bs, shuffle)
        batches = ctx.guard(list, dl, what="iterate")
    if not _batch_shape_ok(ctx, batches, N, bs, tag):
        return
    _verify_content(ctx, batches, ref, N, shuffle, tag, extra=extra)
    ctx.event(f"env={case['env']}")
    ctx.event(f"type={type(ds).__name__}")
    ctx.event(f"loader={case['loader']}")
    ctx.event(f"shuffle={int(shuffle)}")
    ctx.event(f"extra={int(case['extra'])}")
    ctx.event(f"partial_last_batch={int(N % bs != 0)}")
    if N % bs != 0 and shuffle and case["extra"]:
        ctx.nontriv()
    ctx.sample({k: case[k] for k in ("env", "N", "bs", "dcls", "shuffle", "extra", "loader", "phase")})


# --------------------------------------------------------------------------- A3. the module's loader factories
# RL4COLitModule.setup() + train_dataloader() / val_dataloader() / test_dataloader() for every phase. The data of a
# phase come from env.dataset(size, phase): a generator call (sizes of generated phases are distinct, so the content
# is bound to the phase by its configured *_data_size) or npz file(s) configured on the env (train_file / val_file /
# test_file; a list of files gives a dict of named datasets = one loader per dataset).
_PH = ("train", "val", "test")
_NAMES = ["b", "a", "10", "1", "val"]


@st.composite
def cases_ph(draw, tier="quick"):
    keys = [{"dt": "f32", "shape": draw(st.sampled_from([[2], [3, 2], []]))}]
    keys += draw(st.lists(st.fixed_dictionaries({"dt": st.sampled_from(["f32", "f64", "i64", "i32", "bool"]),
                                                 "shape": _SHAPES}), min_size=0, max_size=2))
    first = draw(st.lists(st.integers(1, 16), min_size=3, max_size=3, unique=True))
    phases = {}
    for ph, n0 in zip(_PH, first):
        # "missing": a file is configured but does not exist - env.dataset logs an error and generates (documented)
        form = draw(st.sampled_from(["gen", "gen", "file", "missing"] if ph == "train"
                                    else ["gen", "file", "files", "files", "missing"]))
        k = draw(st.integers(1, 3)) if form == "files" else 1
        Ns = [n0] + [draw(st.integers(1, 12)) for _ in range(k - 1)]
        names = None
        if form == "files" and draw(st.booleans()):
            names = list(draw(st.permutations(_NAMES)))[:k]
        # a list of files may name the same file name in different directories (uniform/val.npz, cluster/val.npz)
        phases[ph] = dict(form=form, N=Ns, names=names, subdirs=(form == "files" and draw(st.booleans())))

    def bs_for(ph, allow_none, inherited):
        p = phases[ph]
        kinds = ["int", "int"]
        if p["form"] == "files":
            kinds += ["list", "list"]
        # None falls back to the previous phase's setting: only defined if that fits this phase's datasets
        if allow_none and (isinstance(inherited, int) or (p["form"] == "files" and len(inherited) == len(p["N"]))):
            kinds += ["none", "none"]
        kind = draw(st.sampled_from(kinds))
        if kind == "none":
            return None
        if kind == "int":
            return _bs(draw, max(p["N"]))
        return [_bs(draw, n) for n in p["N"]]

    bs = _bs(draw, phases["train"]["N"][0])
    vbs = bs_for("val", True, bs)
    tbs = bs_for("test", True, bs if vbs is None else vbs)
    calls = list(draw(st.permutations(_PH))) + draw(st.lists(st.sampled_from(_PH), max_size=2))
    return dict(keys=keys, id_pos=draw(st.integers(0, len(keys))), phases=phases, bs=bs, val_bs=vbs, test_bs=tbs,
                shuffle_train=draw(st.sampled_from([True, True, False])),
                dcls=draw(st.sampled_from(["default", "tdd", "fast", "fastgen"])),
                module=draw(st.sampled_from(["reinforce", "base"])), calls=calls, max_epochs=draw(st.integers(1, 4)),
                sizes_unused=draw(st.integers(1, 30)), seed=draw(st.integers(0, 2 ** 20)))


def _cols(keys, id_pos, N, seed):
    order = [f"k{j}" for j in range(len(keys))]
    order.insert(id_pos, "id")
    return {name: (torch.arange(N) if name == "id" else _col(keys[int(name[1:])]["dt"], N, keys[int(name[1:])]["shape"],
                                                             seed * 8 + int(name[1:]))) for name in order}


class _RecordingGenerator:
    """What env.generator is to env.dataset: batch size in, TensorDict out. Every call draws new content (as a
    real generator does) and keeps a copy = the original instances of that dataset."""

    def __init__(self, keys, id_pos, seed):
        self.keys, self.id_pos, self.seed, self.made = keys, id_pos, seed, {}

    def __call__(self, batch_size):
        from tensordict import TensorDict

        n = int(batch_size[0]) if isinstance(batch_size, (list, tuple, torch.Size)) else int(batch_size)
        prev = self.made.setdefault(n, [])
        cols = _cols(self.keys, self.id_pos, n, self.seed * 64 + 32 + 7 * len(prev) + n)
        prev.append({k: v.clone() for k, v in cols.items()})
        return TensorDict(cols, batch_size=[n])


def execute_ph(case, ctx):
    import shutil
    import tempfile

    tmp = tempfile.mkdtemp(prefix="vf-c17-")  # the files stay until the end: a renewed train set is re-read from them
    try:
        _run_ph(case, ctx, tmp)
    finally:
        shutil.rmtree(tmp, ignore_errors=True)


def _run_ph(case, ctx, tmp):
    import os

    import numpy as np
    from rl4co.envs import TSPEnv
    from rl4co.models import REINFORCE
    from rl4co.models.rl.common.base import RL4COLitModule
    from torch.utils.data import DataLoader

    _quiet()
    keys, id_pos, seed, phases = case["keys"], case["id_pos"], case["seed"], case["phases"]
    origin = {}  # phase -> list of original column dicts (file phases); generated phases are read off the generator
    kw = {}
    for pi, ph in enumerate(_PH):
        p = phases[ph]
        if p["form"] == "gen":
            continue
        if p["form"] == "missing":
            kw[f"{ph}_file"] = f"no_such_{ph}_file.npz"
            continue
        origin[ph], files = [], []
        for j, n in enumerate(p["N"]):
            cols = _cols(keys, id_pos, n, seed * 64 + pi * 8 + j)
            origin[ph].append({k: v.clone() for k, v in cols.items()})
            if p.get("subdirs"):
                os.makedirs(os.path.join(tmp, f"set{j}"), exist_ok=True)
                files.append(f"set{j}/{ph}.npz")
            else:
                files.append(f"{ph}{j}.npz")
            np.savez(os.path.join(tmp, files[-1]), **{k: v.numpy() for k, v in cols.items()})
        kw[f"{ph}_file"] = files if p["form"] == "files" else files[0]
        if p["names"] is not None:
            kw[f"{ph}_dataloader_names"] = list(p["names"])
    if case["dcls"] != "default":
        kw["dataset_cls"] = _dataset_cls(case["dcls"])
    env = ctx.guard(TSPEnv, generator_params={"num_loc": 5}, data_dir=tmp, what="TSPEnv", **kw)
    gen = _RecordingGenerator(keys, id_pos, seed)
    env.generator = gen
    size = {ph: (phases[ph]["N"][0] if phases[ph]["form"] in ("gen", "missing") else case["sizes_unused"]) for ph in _PH}
    cls = REINFORCE if case["module"] == "reinforce" else RL4COLitModule
    mkw = {"baseline": "no"} if case["module"] == "reinforce" else {}
    # the loader factories never touch the policy: a parameter-free stand-in keeps the per-case construction cheap
    # (save_hyperparameters deep-copies env and policy)
    model = ctx.guard(cls, env, torch.nn.Identity(), batch_size=case["bs"], val_batch_size=case["val_bs"],
                      test_batch_size=case["test_bs"], train_data_size=size["train"], val_data_size=size["val"],
                      test_data_size=size["test"], shuffle_train_dataloader=case["shuffle_train"],
                      dataloader_num_workers=0, what="LitModule", **mkw)
    ctx.guard(model.setup, what="LitModule.setup")

    # documented fall-backs: val_batch_size None -> batch_size; test_batch_size None -> val_batch_size
    conf = {"train": case["bs"]}
    conf["val"] = conf["train"] if case["val_bs"] is None else case["val_bs"]
    conf["test"] = conf["val"] if case["test_bs"] is None else case["test_bs"]

    def originals(ph):
        p = phases[ph]
        if p["form"] in ("gen", "missing"):
            return [gen.made[p["N"][0]][-1]]
        return origin[ph]

    stake = False
    seen = set()
    train_calls = 0
    max_epochs = case.get("max_epochs") or 10 ** 6  # (cases recorded before the hook was used: always renewed)
    for ci, ph in enumerate(case["calls"]):
        p = phases[ph]
        if ph == "train" and ph in seen:
            # a new epoch: the real hook (REINFORCE.on_train_epoch_end -> NoBaseline callback -> RL4COLitModule.
            # on_train_epoch_end) with a stub trainer that exposes what the hooks read: max_epochs / current_epoch.
            # Documented: the train set is renewed unless the epoch that ended was the last one.
            import types

            epoch = train_calls - 1
            model.trainer = types.SimpleNamespace(max_epochs=max_epochs, current_epoch=epoch)
            prev_ds = model.train_dataset
            n_made = len(gen.made.get(p["N"][0], []))
            ctx.guard(model.on_train_epoch_end, what="on_train_epoch_end")
            renew = epoch < max_epochs - 1
            drew = len(gen.made.get(p["N"][0], [])) - n_made if p["form"] in ("gen", "missing") \
                else int(model.train_dataset is not prev_ds)
            ctx.check(drew == int(renew) and (model.train_dataset is not prev_ds) == renew, f"epoch_hook_renewal|{p['form']}",
                      f"on_train_epoch_end with current_epoch={epoch}, max_epochs={max_epochs}: train set "
                      f"{'replaced' if model.train_dataset is not prev_ds else 'kept'}, {drew} new draw(s); expected "
                      f"{'a renewed' if renew else 'the same'} train set")
            ctx.event("train_set_renewed" if renew else "train_set_kept_after_last_epoch")
        if ph == "train":
            train_calls += 1
        seen.add(ph)
        torch.manual_seed(seed + ci)
        dls = ctx.guard(getattr(model, f"{ph}_dataloader"), what=f"{ph}_dataloader")
        tag = f"{ph}|{p['form']}|shuffle_train={int(case['shuffle_train'])}"
        orig = originals(ph)
        if p["form"] == "files":
            if not ctx.check(isinstance(dls, (list, tuple)) and len(dls) == len(orig), f"dict_loaders|{tag}",
                             f"{len(orig)} named datasets: expected one loader per dataset, got "
                             f"{type(dls).__name__} of length {len(dls) if isinstance(dls, (list, tuple)) else '-'}"):
                return
            names = model.dataloader_names
            if p["names"] is not None:
                ctx.check(list(names) == list(p["names"]), f"dict_names|{tag}",
                          f"dataloader_names={names} after {ph}_dataloader(), configured {p['names']}")
            else:
                ctx.check(names is not None and len(names) == len(orig), f"dict_names|{tag}",
                          f"dataloader_names={names} for {len(orig)} datasets")
            bss = conf[ph] if isinstance(conf[ph], list) else [conf[ph]] * len(orig)
        else:
            if not ctx.check(isinstance(dls, DataLoader), f"single_loader|{tag}",
                             f"a single dataset: expected a DataLoader, got {type(dls).__name__}"):
                return
            dls, bss = [dls], [conf[ph]]
        shuffled = ph == "train" and case["shuffle_train"]
        for j, (dl, src, b) in enumerate(zip(dls, orig, bss)):
            n = src["id"].shape[0]
            batches = ctx.guard(list, dl, what=f"iterate|{ph}")
            t = tag + (f"|set{j}" if p["form"] == "files" else "")
            if not _batch_shape_ok(ctx, batches, n, b, t):
                return
            _verify_ids(ctx, batches, src, n, shuffled, t)
            if ph != "train" and n >= 3:
                stake = stake or n % b != 0
            # a loaded batch is the caller's to modify; a later loader of the same phase must be unaffected
            _mutate_in_place(batches)
            ctx.event(f"{ph}:partial_last_batch={int(n % b != 0)}")
        ctx.event(f"{ph}:form={p['form']}" + (f"x{len(orig)}" if p["form"] == "files" else ""))
        if p.get("subdirs") and len(p["N"]) >= 2:
            ctx.event("files_with_one_name_in_several_directories" + ("|named" if p["names"] else "|default_names"))
        if p["form"] == "files":
            ctx.event(f"{ph}:bs={'list' if isinstance(conf[ph], list) else 'int'}|names={int(p['names'] is not None)}")
    ctx.event(f"shuffle_train={int(case['shuffle_train'])}")
    ctx.event(f"module={case['module']}")
    ctx.event(f"dcls={case['dcls']}")
    ctx.event(f"val_bs={'none' if case['val_bs'] is None else type(case['val_bs']).__name__}|"
              f"test_bs={'none' if case['test_bs'] is None else type(case['test_bs']).__name__}")
    if case["shuffle_train"] and stake:
        ctx.nontriv()
    ctx.sample({k: case[k] for k in ("phases", "bs", "val_bs", "test_bs", "shuffle_train", "dcls", "module", "calls")})


# --------------------------------------------------------------------------- B. rollout baseline wrapping
# mode history: recursive .train() / .eval() calls on the Lightning module ("model": what Trainer.fit does at the
# start of the fit loop and around every validation loop; in direct mode = baseline + actor), on the baseline
# module alone, or on the actor alone
_MODE_OPS = ["model.train", "model.train", "model.eval", "baseline.train", "baseline.train", "baseline.eval",
             "actor.train", "actor.eval"]
_HIST = st.one_of(st.just([]), st.just(["model.train"]), st.lists(st.sampled_from(_MODE_OPS), min_size=0, max_size=3))


@st.composite
def decode_types(draw):
    """Policy constructor options train_decode_type / val_decode_type / test_decode_type, each greedy | sampling with the
    library default (sampling, greedy, greedy) as the most frequent value of every option."""
    return [draw(st.sampled_from(["sampling", "sampling", "sampling", "greedy"])),
            draw(st.sampled_from(["greedy", "greedy", "sampling"])),
            draw(st.sampled_from(["greedy", "greedy", "sampling"]))]


def dec_events(ctx, dec):
    """class counters of the phase decode types of the policy (non-default classes spelled out)"""
    dec = list(dec or _DEC_DEFAULT)
    if dec == _DEC_DEFAULT:
        ctx.event("decode_types=library_default")
        return
    ctx.event("decode_types=non_default")
    for ph, got, dflt in zip(("train", "val", "test"), dec, _DEC_DEFAULT):
        if got != dflt:
            ctx.event(f"{ph}_decode_type={got}")


_DEC_DEFAULT = ["sampling", "greedy", "greedy"]


def _dec_note(dec):
    if not dec or list(dec) == _DEC_DEFAULT:
        return ""
    return (f" [policy built with train/val/test_decode_type={'/'.join(dec)}; the rollout baseline is documented as a "
            f"*greedy* rollout whatever the phase attributes say]")


@st.composite
def cases_b(draw, tier="quick"):
    N = draw(st.integers(2, 12))
    nondiv = [b for b in range(2, N) if N % b]
    eval_bs = draw(st.sampled_from(nondiv)) if nondiv and draw(st.integers(0, 3)) else draw(st.integers(1, N + 1))
    # second wrap: a new "epoch" set made of a drawn selection of the first set's instances (a permutation prefix
    # or a free selection with repeats), so the solo oracle values are reused
    sel = draw(st.one_of(st.permutations(list(range(N))).map(list),
                         st.lists(st.integers(0, N - 1), min_size=1, max_size=N)))
    sel = sel[:draw(st.integers(max(1, N // 2), N))]
    return dict(env=draw(st.sampled_from(["tsp", "cvrp"])), num_loc=draw(st.integers(4, 8)),
                embed_dim=draw(st.sampled_from([16, 32])), spread=draw(st.sampled_from([1.0, 1.0, 1.25, 1.5])),
                pseed=draw(st.integers(0, 2 ** 16)), dseed=draw(st.integers(0, 2 ** 16)),
                N=N, M=draw(st.integers(2, 5)), eval_bs=eval_bs, train_bs=draw(st.integers(1, N + 1)),
                dcls=draw(st.sampled_from(["default", "default", "tdd", "fast", "fastgen"])),
                mode=draw(st.sampled_from(["direct", "direct", "module"])),
                n_epochs=draw(st.integers(1, 3)), bl_alpha=draw(st.sampled_from([1.0, 0.05, 0.5])),
                perturb=draw(st.sampled_from([0.0, 0.8, 1.3, 1.6])),
                loader=draw(st.sampled_from(["torch", "module"])),
                modedep=draw(st.sampled_from(["bn", "bn", "bn", "bn+do", "do"])),
                bnstats=draw(st.sampled_from(["fresh", "trained"])),
                actor0=draw(st.sampled_from(["train", "train", "eval"])),
                hist1=draw(_HIST), hist2=draw(_HIST), hist3=draw(_HIST), sel=sel,
                eval_bs2=draw(st.integers(1, len(sel) + 1)), dec=draw(decode_types()))


def _policy(env_name, embed_dim, seed, spread, modedep="bn", bnstats="fresh", dec=None):
    """Tiny AttentionModelPolicy with mode-dependent layers: batch normalization (the constructor default) and/or a
    dropout layer behind the initial embedding (the constructor offers no dropout option; `do` = instance
    normalization + dropout, `bn+do` = both). `trained` gives the batch-norm layers non-trivial running statistics
    (as after training / loading a checkpoint) so that eval mode is not the identity-like fresh state.
    `dec` = [train_decode_type, val_decode_type, test_decode_type] constructor options (None: not passed = defaults)."""
    import torch.nn as nn
    from rl4co.models import AttentionModelPolicy

    torch.manual_seed(seed)
    kw = {} if dec is None else dict(train_decode_type=dec[0], val_decode_type=dec[1], test_decode_type=dec[2])
    pol = AttentionModelPolicy(env_name=env_name, embed_dim=embed_dim, num_encoder_layers=1, num_heads=2,
                               feedforward_hidden=2 * embed_dim,
                               normalization="instance" if modedep == "do" else "batch", **kw)
    if dec is not None and [pol.train_decode_type, pol.val_decode_type, pol.test_decode_type] != list(dec):
        from ..runner import HarnessError

        raise HarnessError(f"policy did not take the decode types {dec}")
    with torch.no_grad():
        for p in pol.parameters():
            p.mul_(spread)
        if "do" in modedep:
            pol.encoder.init_embedding = nn.Sequential(pol.encoder.init_embedding, nn.Dropout(0.3))
        if bnstats == "trained":
            g = torch.Generator().manual_seed(seed + 1)
            for m in pol.modules():
                if isinstance(m, nn.BatchNorm1d):
                    m.running_mean.copy_(0.3 * torch.randn(m.running_mean.shape, generator=g))
                    m.running_var.copy_(0.6 + 0.8 * torch.rand(m.running_var.shape, generator=g))
    return pol


def _apply_modes(ops, model, bl, actor):
    """Replay a drawn mode history. `model.*` = the Lightning module (module mode) or baseline and actor (direct)."""
    for op in ops:
        who, what = op.split(".")
        if who == "model":
            targets = [model] if model is not None else [bl, actor]
        elif who == "baseline":
            targets = [model.baseline if model is not None else bl]
        else:
            targets = [actor]
        for t in targets:
            t.train(what == "train")


def _state_copy(module):
    return {k: v.detach().clone() for k, v in module.state_dict().items()}


def _state_equal(module, saved):
    sd = module.state_dict()
    return sd.keys() == saved.keys() and all(torch.equal(sd[k], saved[k]) for k in sd)


def _solo(policy, env, row):
    """Greedy reward of `policy` on a single instance (batch of one) and the smallest top-2 log-prob gap."""
    from rl4co.utils.decoding import process_logits

    rec = []
    h = policy.decoder.register_forward_hook(lambda m, i, o: rec.append((o[0].detach().clone(), o[1].detach().clone())))
    try:
        with torch.inference_mode():
            out = policy(env.reset(row.clone()), env, decode_type="greedy")
    finally:
        h.remove()
    gap = math.inf
    for logits, mask in rec:
        if int(mask.sum()) < 2:
            continue
        lp = process_logits(logits.clone(), mask.clone(), temperature=policy.temperature,
                            tanh_clipping=policy.tanh_clipping, mask_logits=policy.mask_logits)
        top = lp.reshape(-1).topk(2).values
        gap = min(gap, float(top[0] - top[1]))
    return float(out["reward"].reshape(-1)[0]), gap


def _row(ref, i):
    from tensordict import TensorDict

    return TensorDict({k: v[i:i + 1].clone() for k, v in ref.items()}, batch_size=[1])


def _same_params(a, b):
    sa, sb = a.state_dict(), b.state_dict()
    return sa.keys() == sb.keys() and all(torch.equal(sa[k], sb[k]) for k in sa)


def _aliased(a, b):
    pa = {p.data_ptr() for p in a.parameters()}
    return a is b or any(p.data_ptr() in pa for p in b.parameters())


def _compare_values(ctx, values, oracle, env, ref, n, tag, what, cache=None, index=None, note=""):
    """values[j] vs solo greedy reward of the oracle policy on instance index[j] (default j) of `ref`
    (argmax-stability rule). `cache` (dict instance -> (reward, gap)) is filled / reused: the solo reward is a
    function of the oracle policy and the instance only."""
    decisive = 0
    solos = []
    cache = {} if cache is None else cache
    for j in range(n):
        i = j if index is None else index[j]
        if i not in cache:
            cache[i] = _solo(oracle, env, _row(ref, i))
        r, gap = cache[i]
        solos.append(r)
        v = float(values[j])
        if abs(v - r) <= 1e-5 * (1 + abs(r)):
            decisive += gap > GAP
            continue
        if gap <= GAP:
            ctx.event("dontcare_near_tie_mismatch")
            continue
        ctx.violation(f"{what}|{tag}",
                      f"{what}: value attached to item {j} (instance {i}) is {v:.6f}, the baseline policy's solo "
                      f"greedy reward (eval mode) on that instance is {r:.6f} (decisive, min top-2 gap {gap:.3g}){note}",
                      {"values": [float(x) for x in values], "solo_so_far": solos})
        return None
    return decisive, solos


def _perturb(policy, f):
    if f:
        with torch.no_grad():
            for p in policy.parameters():
                p.mul_(f)


def execute_b(case, ctx):
    from rl4co.models import REINFORCE
    from rl4co.models.rl.reinforce.baselines import RolloutBaseline
    from tensordict import TensorDict
    from torch.utils.data import DataLoader

    _quiet()
    N, M, eval_bs = case["N"], case["M"], case["eval_bs"]
    modedep, bnstats = case.get("modedep", "bn"), case.get("bnstats", "fresh")
    hist1, hist2, hist3 = case.get("hist1", []), case.get("hist2", []), case.get("hist3", [])
    env = _get_env(case["env"], case["num_loc"], case["dcls"])
    policy = _policy(case["env"], case["embed_dim"], case["pseed"], case["spread"], modedep, bnstats, case.get("dec"))
    policy.train(case.get("actor0", "train") == "train")  # the mode the actor is handed over in
    snap = copy.deepcopy(policy).eval()
    tag = f"{case['env']}|{case['mode']}"
    oracle = snap

    if case["mode"] == "direct":
        bl = RolloutBaseline(bl_alpha=case["bl_alpha"])
        torch.manual_seed(case["dseed"])
        # the way REINFORCE.post_setup_hook does
        ctx.guard(bl.setup, policy, env, batch_size=eval_bs, device="cpu", dataset_size=M, what="RolloutBaseline.setup")
        inner = bl

        def wrap(dataset, bs=eval_bs):
            return ctx.guard(bl.wrap_dataset, dataset, env, batch_size=bs, device="cpu",
                             what="RolloutBaseline.wrap_dataset")
        model = None
    else:
        bl = None
        model = REINFORCE(env, policy, baseline="rollout", baseline_kwargs={"n_epochs": case["n_epochs"], "bl_alpha": case["bl_alpha"]},
                          batch_size=case["train_bs"], val_batch_size=eval_bs, train_data_size=N, val_data_size=M,
                          test_data_size=1, shuffle_train_dataloader=True)
        torch.manual_seed(case["dseed"])
        ctx.guard(model.setup, what="REINFORCE.setup")
        inner = model.baseline.baseline

        def wrap(dataset, bs=None):
            return ctx.guard(model.wrap_dataset, dataset, what="REINFORCE.wrap_dataset")

    ctx.check(not _aliased(inner.policy, policy), f"baseline_policy_aliased|{tag}",
              "the baseline policy shares parameters with the training policy (not a snapshot)")
    # values on the baseline's own evaluation set (same rollout code, batch size eval_bs over M instances)
    evb = next(iter(DataLoader(inner.dataset, batch_size=M + 1, collate_fn=inner.dataset.collate_fn)))
    evref = {k: evb[k].clone() for k in evb.keys()}
    ctx.check(len(inner.bl_vals) == M and evb.batch_size[0] == M, f"bl_vals_len|{tag}",
              f"{len(inner.bl_vals)} baseline values for an evaluation set of {M}")
    dnote = _dec_note(case.get("dec"))
    if _compare_values(ctx, inner.bl_vals, snap, env, evref, M, tag, "bl_vals_mismatch", note=dnote) is None:
        return

    # training moves on (mode switches of the fit / validation loops, parameter updates); the baseline must stay
    # the snapshot
    _apply_modes(hist1, model, bl, policy)
    _perturb(policy, case["perturb"])
    if model is not None:
        cand = copy.deepcopy(policy).eval()
        # the way REINFORCE.on_train_epoch_end does
        try:
            model.baseline.epoch_callback(model.policy, env=env, batch_size=model.val_batch_size, device="cpu",
                                          epoch=0, dataset_size=M)
        except AssertionError as e:
            if "T-statistic" in str(e):
                # the library compares float32 means but asserts on the sign of a float64 t-statistic: on the tiny
                # evaluation sets used here (M <= 8) the two can disagree by rounding. Not part of C17 (identity /
                # order / baseline values): the case is excluded and counted.
                ctx.exclude("epoch_callback_ttest_sign_rounding")
                raise SkipCase()
            raise
        if _same_params(inner.policy, snap):
            ctx.event("epoch_callback_kept_baseline")
        elif _same_params(inner.policy, cand):
            oracle = cand
            ctx.event("epoch_callback_updated_baseline")
        else:
            ctx.violation(f"baseline_policy_neither|{tag}", "after epoch_callback the baseline policy is neither the "
                                                            "previous snapshot nor a copy of the candidate")
            return
        ctx.check(not _aliased(inner.policy, policy), f"baseline_policy_aliased|{tag}",
                  "the baseline policy shares parameters with the training policy (not a snapshot)")
        _perturb(policy, case["perturb"])
        ctx.event(f"alpha={model.baseline.alpha:.2f}")
    _apply_modes(hist2, model, bl, policy)

    def wrap_checked(dataset, which, bs):
        """wrap_dataset under the current mode state; the actor (not an argument of wrapping) must be untouched."""
        copy_mode = "train" if inner.policy.training else "eval"
        ctx.event(f"frozen_copy_mode_at_{which}={copy_mode}")
        ctx.event(f"baseline_module_mode_at_{which}={'train' if inner.training else 'eval'}")
        actor_before = _state_copy(policy)
        out = wrap(dataset, bs)
        ctx.check(_state_equal(policy, actor_before), f"actor_changed_by_wrap|{tag}",
                  f"{which}: wrap_dataset changed parameters / buffers of the training policy (actor)")
        return out, (f" [frozen copy was in {copy_mode} mode when wrap_dataset was called; mode history after setup: "
                     f"{hist1 + hist2 + (hist3 if which == 'wrap2' else [])}]" + dnote)

    ref, dataset = _gen_and_dataset(ctx, env, N, "train", case["dseed"] + 1)
    wrapped, note = wrap_checked(dataset, "wrap1", eval_bs)
    ctx.check(len(wrapped) == N, f"len|{tag}", f"wrapped dataset has length {len(wrapped)} for {N} instances")
    seq = ctx.guard(list, DataLoader(wrapped, batch_size=N + 1, collate_fn=wrapped.collate_fn), what="iterate")
    if not _batch_shape_ok(ctx, seq, N, N + 1, "wrapped_seq|" + tag):
        return
    has_extra = "extra" in seq[0].keys()
    if case["mode"] == "direct" or has_extra:
        if not ctx.check(has_extra, f"no_extra|{tag}", "RolloutBaseline.wrap_dataset attached no 'extra' key"):
            return
        extra = seq[0]["extra"].clone()
        if not ctx.check(extra.dtype == torch.float32 and tuple(extra.shape) == (N,), f"extra_shape|{tag}",
                         f"extra came back as {extra.dtype} {tuple(extra.shape)}, expected float32 ({N},)"):
            return
    else:
        extra = None
        ctx.event("warmup_no_extra")
    # wrapping keeps the instances and their order
    if _verify_content(ctx, seq, ref, N, False, "wrapped_seq|" + tag, extra=extra) is None:
        return
    decisive = 0
    cache = {}
    if extra is not None:
        res = _compare_values(ctx, extra, oracle, env, ref, N, tag, "rollout_value_mismatch", cache=cache, note=note)
        if res is None:
            return
        decisive, solos = res
        ctx.event("decisive_instances", decisive)
        ctx.event("instances", N)
        ctx.event("distinct_rewards" if len({round(s, 5) for s in solos}) > 1 else "constant_rewards")
    # evaluating the frozen copy must not modify it (a training-mode forward moves the batch-norm statistics)
    if not ctx.check(_same_params(inner.policy, oracle), f"baseline_policy_changed_by_wrap|{tag}",
                     "wrap1: parameters / buffers of the baseline policy differ from the snapshot after wrap_dataset" + note):
        return

    # the value travels with its instance through shuffling and batching
    torch.manual_seed(case["dseed"] + 2)
    if model is not None and case["loader"] == "module":
        model.train_dataset = wrapped
        dl = ctx.guard(model.train_dataloader, what="train_dataloader")
    else:
        dl = _make_loader(ctx, case["loader"], wrapped, case["train_bs"], True)
    batches = ctx.guard(list, dl, what="iterate")
    if _batch_shape_ok(ctx, batches, N, case["train_bs"], "wrapped_shuffled|" + tag):
        _verify_content(ctx, batches, ref, N, True, "wrapped_shuffled|" + tag, extra=extra)

    # next epoch: more mode switches, then a new set (a drawn selection of the same instances, so the value of item
    # j is the solo reward of instance sel[j] already computed) is wrapped by the same baseline
    sel = case.get("sel")
    if sel and extra is not None:
        _apply_modes(hist3, model, bl, policy)
        n2 = len(sel)
        ref2 = {k: v[sel].clone() for k, v in ref.items()}
        ds2 = env.dataset_cls(TensorDict({k: v.clone() for k, v in ref2.items()}, batch_size=[n2]))
        wrapped2, note2 = wrap_checked(ds2, "wrap2", case.get("eval_bs2", eval_bs))
        seq2 = ctx.guard(list, DataLoader(wrapped2, batch_size=n2 + 1, collate_fn=wrapped2.collate_fn), what="iterate")
        if not _batch_shape_ok(ctx, seq2, n2, n2 + 1, "wrapped2_seq|" + tag):
            return
        if not ctx.check("extra" in seq2[0].keys(), f"no_extra|{tag}", "second wrap_dataset attached no 'extra' key"):
            return
        extra2 = seq2[0]["extra"].clone()
        if not ctx.check(extra2.dtype == torch.float32 and tuple(extra2.shape) == (n2,), f"extra_shape|{tag}",
                         f"extra came back as {extra2.dtype} {tuple(extra2.shape)}, expected float32 ({n2},)"):
            return
        if _verify_content(ctx, seq2, ref2, n2, False, "wrapped2_seq|" + tag, extra=extra2) is None:
            return
        if _compare_values(ctx, extra2, oracle, env, ref, n2, tag, "rollout_value_mismatch", cache=cache, index=sel,
                           note=note2) is None:
            return
        if not ctx.check(_same_params(inner.policy, oracle), f"baseline_policy_changed_by_wrap|{tag}",
                         "wrap2: parameters / buffers of the baseline policy differ from the snapshot after "
                         "wrap_dataset" + note2):
            return
        ctx.event("second_wrap")
        ctx.event(f"second_wrap_repeats={int(len(set(sel)) < n2)}")

    ctx.event(f"mode={case['mode']}")
    ctx.event(f"env={case['env']}")
    ctx.event(f"type={type(wrapped).__name__}")
    ctx.event(f"eval_bs_divides_N={int(N % eval_bs == 0)}")
    ctx.event(f"perturbed={int(bool(case['perturb']))}")
    ctx.event(f"modedep={modedep}|bnstats={bnstats}")
    dec_events(ctx, case.get("dec"))
    if N % eval_bs != 0 and extra is not None and decisive >= 1:
        ctx.nontriv()
    ctx.sample({k: case[k] for k in ("env", "num_loc", "N", "M", "eval_bs", "train_bs", "mode", "dcls", "perturb")}
               | {"modedep": modedep, "hist": [hist1, hist2, hist3], "dec": case.get("dec")})


# --------------------------------------------------------------------------- observations (never violations)
def _observations(tier):
    return [{"obs": "dataloader_list"}, {"obs": "rollout_only_setup"}]


def execute_obs(case, ctx):
    """Construction paths outside the asserted domain (lead's decision): only counted."""
    from rl4co.envs import TSPEnv
    from rl4co.models import REINFORCE

    _quiet()
    torch.manual_seed(0)
    env = TSPEnv(generator_params={"num_loc": 5})
    if case["obs"] == "dataloader_list":
        m = _lit()
        a, b = env.dataset(3), env.dataset(2)
        try:
            dls = m._dataloader([a, b], 2)
            ctx.event(f"obs_dataloader_list_ok_{len(dls)}")
        except Exception as e:  # observation only
            ctx.event(f"obs_dataloader_list_crash_{type(e).__name__}")
    else:
        pol = _policy("tsp", 16, 0, 2.0)
        m = REINFORCE(env, pol, baseline="rollout_only", batch_size=2, train_data_size=4, val_data_size=2,
                      test_data_size=1)
        try:
            m.setup()
            ctx.event("obs_rollout_only_setup_ok")
        except Exception as e:  # observation only
            ctx.event(f"obs_rollout_only_setup_crash_{type(e).__name__}")


SUBS = [
    Sub("loader_roundtrip", execute_a, strategy=lambda tier: cases_a(tier),
        budget={"quick": 12800, "thorough": 64000}, shards=16),
    Sub("env_dataset", execute_env, strategy=lambda tier: cases_env(tier),
        budget={"quick": 2560, "thorough": 12800}, shards=16),
    Sub("module_phases", execute_ph, strategy=lambda tier: cases_ph(tier),
        budget={"quick": 1024, "thorough": 5120}, shards=16),
    Sub("rollout_wrap", execute_b, strategy=lambda tier: cases_b(tier),
        budget={"quick": 512, "thorough": 2560}, shards=16, weight=3.0),
    Sub("loader_workers", execute_a, strategy=lambda tier: cases_workers(tier),
        budget={"quick": 64, "thorough": 480}, shards=16, weight=2.0),
    Sub("epoch_hooks", execute_hooks, strategy=lambda tier: hook_cases(tier),
        budget={"quick": 224, "thorough": 1280}, shards=16, weight=3.0),
    Sub("mdam_wrap", execute_mdam, strategy=lambda tier: mdam_cases(tier),
        budget={"quick": 48, "thorough": 320}, shards=16, weight=2.0),
    Sub("observations", execute_obs, enumerate=_observations, shards=1, weight=0.1),
]
