"""C18 — generators emit well-formed, solvable instances within documented bounds.

One case = (generator, JSON configuration, batch size, torch seed, route, episode rows).  `execute` realises the
configuration into generator kwargs, builds the generator (directly, or through `EnvCls(generator_params=...)`),
draws one batch, judges it with the generator's validity predicates (all vectorised) and finally drives a
mask-confined episode from `env.reset(td)` to `done` within the C02 step bound.

Sub `samplers` (vf/c18_samplers.py) drives the coordinate sampler classes of envs/common/distribution_utils.py directly
and through get_sampler: large batches, uneven cluster splits, border (clamp) region reached in most cases.
"""
import math

import hypothesis.strategies as st
import torch

from ..c18_lib import (INF, SQ2, Judge, coord_extent, coord_kwargs, coord_params, defaults_of, dist0, dist_kwargs, dist_range,
                       first_bad, is_int, loc_dist, needs_two_points, q, repo_call, scalar_const, scalar_dist, scalar_kwargs,
                       scalar_range, seed_all, sizes)
from ..c18_samplers import cases as sampler_cases, execute as execute_samplers
from ..envs import SPECS, py_instance
from ..episode import MODES, run_episode
from ..runner import Sub

PROPERTY = "C18"
RULE = (
    "cases = (generator class, Hypothesis-drawn configuration, batch size 1-64, torch seed, construction route direct | "
    "EnvCls(generator_params), 1-3 episode behaviours (mode, choice stream) cycled over the rows). Configurations: sizes 1-60 "
    "incl. sizes off the capacity / max-length tables, coordinate boxes, loc/depot distributions (default, 'uniform', Uniform "
    "class, callable, explicit sampler objects, constants, center, corner, normal, exponential, poisson, cluster, mixed, "
    "gaussian_mixture, mix_distribution, mix_multi_distributions), demand ranges and capacity overrides, CVRPTW "
    "max_time/scale/max_loc under the feasibility precondition, OP prize types and scalar/tensor max_length, PCTSP penalty "
    "settings, mTSP agent ranges, SVRP technician lists, MDCPDP depots/modes/capacities, ATSP tmat_class, all MTVRP presets "
    "with subsample / use_combinations / demand / backhaul settings, FJSP/JSSP/FFSP/SMTWTP shapes, FLP/MCP sizes and quotas; "
    "the 'gaussian' alias; scalar sampler routes (Uniform class, callable, constant int/float, explicit sampler object, "
    "sub-range sampler) for CVRP/CVRPTW demand, MDCPDP lateness weight, MCP item weights and set sizes; CVRP/CVRPTW "
    "vehicle_capacity; DPP/MDPP generators on synthetic PDN data (chip 4x4-10x10, keep-out / probe ranges, quota). Every "
    "generator object is called three times: the second batch (other seed, same or other batch size) is judged by the same "
    "predicates, must leave the first batch untouched and be a fresh draw; a third call under the first seed must "
    "reproduce the first batch. "
    "bulk = the same predicates on 10^5-row draws of CVRP/CVRPTW/MTVRP. "
    "samplers = the coordinate sampler classes of envs/common/distribution_utils.py (Cluster, Mixed, Gaussian_Mixture, "
    "Mix_Distribution, Mix_Multi_Distributions) built directly (keyword / positional / default constructor arguments) or through "
    "get_sampler(name, low, high, **kwargs incl. unrelated ones), plus get_sampler's plain names (uniform, Uniform, constant, "
    "center, corner, normal, gaussian, exponential, poisson); n_cluster 1-12, n_cluster_mix 1-6, (num_modes, cdist) from the 11 "
    "published pairs and off-list pairs (num_modes 0-9, cdist 0-100), the public `std` attribute at its default 0.07 or set to "
    "0.035-0.2; sample((batch 1-256, num_loc 1-100, 2)) three times per object: first size, another drawn size under another RNG "
    "state, first size under the first RNG state again; RNG seeded from the case. Counted classes: num_loc not a multiple of "
    "n_cluster / odd halves (uneven_split), n_cluster > num_loc, coordinates clamped exactly to 0.0 or 1.0 (border_hit), frame "
    "tests that could tell the documented composition from its alternatives (frame_test_with_power). "
    "Non-trivial = configuration differing from the generator's defaults in >= 2 parameters; for samplers: a clamping sampler "
    "(cluster / mixed / mix_distribution) with an uneven split over its clusters AND at least one coordinate on the border 0.0 / "
    "1.0, or a min-max scaling sampler judged per instance on >= 2 instances of >= 3 points; distinct = distinct case hash."
)
ASSUMPTIONS = [
    "asserted predicates are those of the generator docstrings and of the consuming env (reset / mask / check_solution_validity); "
    "where a docstring shape disagrees with what the env of the same package reads (CVRPTW windows [B,n+1,2], OP max_length [B], "
    "FLP to_choose [B], FFSP run_time [B,J,S*M], SVRP techs/skills [B,.,1], MCP width = sampled maximum set size) the env's reading is asserted",
    "CVRPTW: max_time >= 2*sqrt(2)*(coordinate extent) + 2 (the generator asserts feasibility; configurations violating this "
    "documented relation are not generated); MTVRP: distance_limit > 2*sqrt(2)*(max_loc-min_loc), max_time >= "
    "2*sqrt(2)*(max_loc-min_loc)/speed + 0.5; demands: max_demand <= capacity",
    "range predicates only for bounded samplers; normal / exponential / poisson coordinates are judged on shape, finiteness and solvability",
    "min-max-scaling samplers (gaussian_mixture, mix_multi_distributions) need >= 2 points: single-point draws excluded by construction; "
    "OP prize_type='dist' with all points coincident (constant distribution) excluded (0/0)",
    "FFSP min_time < max_time (randint upper bound is exclusive); FLP to_choose <= num_loc; MCP n_sets_to_choose <= num_sets",
    "PCTSP prize_required kept at its default (observation O3: mask and checker hard-code 1.0)",
    "float tolerances: 1e-6 relative on coordinate ranges and the ATSP triangle inequality, 1e-4 absolute (scaled units) on time-window "
    "reachability / return predicates, 1e-4 on integrality of demand*capacity",
    "episodes of large batches run on a prefix of the rows (rows*bound <= ~2500 steps); one FFSP env object per episode",
    "vehicle_capacity >= max_demand / capacity (largest normalised demand) so that every customer fits a vehicle; DPP/MDPP: "
    "cells - max_decaps - num_probes_max - 2 >= num_keepout_max (max_decaps free cells always remain); constants handed to a "
    "*_distribution argument lie inside the generator's own [min, max] range of that quantity",
    "MDCPDP: env start_mode kept at 'order' (start_mode='random' is env behaviour, drawn in C01-C04); when the "
    "generated capacity is [B,1] with num_depot > 1 (F5) the solvable clause is judged with capacity expanded to [B,num_depot]",
    "mTSP num_loc=1 and SVRP single-technician lists are generated and reported under their own boundary signatures "
    "(mtsp|single_loc|*, svrp|single_tech|*)",
    "samplers: the contract is read from the class docstrings / code comments and from the one way every generator consumes a "
    "sampler, sample((batch, num_loc, 2)) -> [batch, num_loc, 2]: 'Confine the coordinates to range [0, 1]' (exact), min-max "
    "scaling per instance (min 0 / max 1 per coordinate, 1e-6), the (1, 1) kind centred per instance with larger range 1 (1e-5), "
    "'50% uniform / 50% gaussian' for Mixed (either rounding of an odd size). The order of the nodes inside an instance and "
    "which cluster a node belongs to are NOT asserted (not documented, not observable without the hidden centres). Statistical "
    "clauses (frame counts of Cluster / Mixed with the object's own std / lower / upper attributes, skipped when those are absent; "
    "number of un-normalised Mix_Multi_Distributions instances) use Bernstein / exact binomial tails below 1e-12 per test; "
    "'no unsampled node slot' needs both coordinates of one node index clamped to 0 in >= 6 instances (< 1e-12). Setting the "
    "public attribute `std` after construction is taken to be inside the domain (the clamp comment is unconditional); "
    "min-max scaling samplers with a single point (0/0) are excluded by construction as in the generator subs",
]
TIME_CAP = {"quick": 400, "thorough": 3000}


def _rows():
    return st.lists(st.fixed_dictionaries({"mode": st.sampled_from(MODES + ["stream", "stream"]),
                                           "stream": st.lists(st.integers(0, 63), min_size=1, max_size=12)}),
                    min_size=1, max_size=3)


def _batch():
    return st.one_of(st.integers(1, 4), st.integers(1, 16), st.integers(1, 64))


def _wrap(name, pstrat):
    @st.composite
    def s(draw):
        return {"gen": name, "p": draw(pstrat), "B": draw(_batch()), "seed": draw(st.integers(0, 2 ** 31 - 1)),
                "route": draw(st.sampled_from(["direct", "env"])), "rows": draw(_rows()),
                # batch size of the SECOND call of the same generator object (None = the same size again)
                "B2": draw(st.one_of(st.none(), st.integers(1, 8)))}
    return s()


def _opt(draw, p, key, strat, prob=3):
    """include a non-default parameter with probability 1/prob"""
    if draw(st.integers(0, prob - 1)) == 0:
        p[key] = draw(strat)


# =========================================================================== per-generator definitions
class G:
    """name, classes, configuration strategy, kwargs realisation, predicates, env/bound"""
    name = None
    gen_path = None  # "module:Class"
    env_name = None
    spec = None  # SPECS key for the bound
    with_depot = True
    size_key = "num_loc"
    env_kw_keys = ()

    def gen_cls(self):
        import importlib
        m, c = self.gen_path.split(":")
        return getattr(importlib.import_module(m), c)

    def env_cls(self):
        import rl4co.envs as E
        return getattr(E, self.env_name)

    def params(self, tier):
        raise NotImplementedError

    def kwargs(self, p, spies, B):
        raise NotImplementedError

    def env_kwargs(self, p):
        return {k: p[k] for k in self.env_kw_keys if k in p}

    def nondefault(self, p, kw):
        """names of generator parameters differing from the default"""
        d = defaults_of(self.gen_cls())
        out = []
        for k, v in kw.items():
            if k in d:
                dv = d[k]
                same = (dv is v) or (type(dv) in (int, float, bool, str, list, type(None)) and type(v) in
                                     (int, float, bool, str, list, type(None)) and dv == v)
                if not same:
                    out.append(k)
            else:
                out.append(k)
        return out + [k for k in self.env_kw_keys if k in p]

    def exclude(self, p, B):
        return None

    def env_cls_for(self, p):
        return self.env_cls()

    def check(self, J, td, p, kw, B, gen, spies):
        raise NotImplementedError

    def bound(self, p, row, gen):
        raise NotImplementedError


def check_coords(J, td, p, B, n, spies, depot=True, loc_key="locs", scale=1.0):
    locs = J.shape(td, loc_key, (B, n, 2), "float")
    J.finite(locs, loc_key)
    lo, hi = p["min_loc"], p["max_loc"]
    r = dist_range(p["loc"], lo, hi)
    if r is not None:
        kind = p["loc"]["kind"]
        J.within(locs * scale, r[0], r[1], loc_key if kind != "center" else f"{loc_key}|center")
    dep = None
    if depot:
        dep = J.shape(td, "depot", (B, 2), "float")
        J.finite(dep, "depot")
        dk = p["depot"]["kind"]
        rr = r if dk == "none" else dist_range(p["depot"], lo, hi)
        if rr is not None:
            cen = dk == "center" or (dk == "none" and p["loc"]["kind"] == "center")
            J.within(dep * scale, rr[0], rr[1], "depot|center" if cen else "depot")
    # explicit sampler objects must be the source of the coordinates
    if "loc" in spies:
        sp = spies["loc"]
        if J.ok(len(sp.out) >= 1, "loc_sampler_ignored", "explicit loc_sampler object was never sampled"):
            raw = sp.out[0]
            if depot and p["depot"]["kind"] == "none":
                good = raw.shape == (B, n + 1, 2) and torch.equal(raw[:, 1:] , locs * scale) and torch.equal(raw[:, 0], dep * scale)
            else:
                good = raw.shape == (B, n, 2) and torch.equal(raw, locs * scale)
            if scale == 1.0:
                J.ok(good, "loc_sampler_output", "emitted coordinates are not what the explicit loc_sampler returned")
    if depot and "depot" in spies:
        sp = spies["depot"]
        if J.ok(len(sp.out) >= 1, "depot_sampler_ignored", "explicit depot_sampler object was never sampled") and scale == 1.0:
            J.ok(sp.out[0].shape == (B, 2) and torch.equal(sp.out[0], dep), "depot_sampler_output",
                 "emitted depot is not what the explicit depot_sampler returned")
    return locs, dep


def excl_points(p, with_depot=True):
    npts = p["num_loc"] + (1 if with_depot and p.get("depot", {}).get("kind") == "none" else 0)
    if needs_two_points(p["loc"]) and npts < 2:
        return "minmax_scaling_single_point"
    return None


# --------------------------------------------------------------------------- TSP
class TSP(G):
    name, gen_path, env_name, spec, with_depot = "tsp", "rl4co.envs.routing.tsp.generator:TSPGenerator", "TSPEnv", "tsp", False

    def params(self, tier):
        return coord_params(tier, with_depot=False)

    def kwargs(self, p, spies, B):
        return coord_kwargs(p, spies, with_depot=False)

    def exclude(self, p, B):
        return excl_points(p, False)

    def check(self, J, td, p, kw, B, gen, spies):
        J.keys(td, ["locs"])
        check_coords(J, td, p, B, p["num_loc"], spies, depot=False)

    def bound(self, p, row, gen):
        return p["num_loc"]


# --------------------------------------------------------------------------- ATSP
class ATSP(G):
    name, gen_path, env_name, spec = "atsp", "rl4co.envs.routing.atsp.generator:ATSPGenerator", "ATSPEnv", "atsp"

    def params(self, tier):
        @st.composite
        def s(draw):
            p = {"num_loc": draw(sizes(tier, 1, 60 if tier != "quick" else 40))}
            _opt(draw, p, "tmat_class", st.booleans(), 2)
            if draw(st.booleans()):
                lo = draw(q(0, 2))
                p["min_dist"], p["max_dist"] = lo, lo + draw(q(0.125, 10))
            p["dist"] = draw(loc_dist(["default"] * 4 + ["uniform_str", "uniform_cls", "sampler_sub", "const", "spy"]))
            return p
        return s()

    def kwargs(self, p, spies, B):
        kw = {k: p[k] for k in ("num_loc", "tmat_class", "min_dist", "max_dist") if k in p}
        kw.update(dist_kwargs(p["dist"], "dist", 0.0, 1.0, spies))
        return kw

    def check(self, J, td, p, kw, B, gen, spies):
        n = p["num_loc"]
        J.keys(td, ["cost_matrix"])
        d = J.shape(td, "cost_matrix", (B, n, n), "float")
        J.finite(d, "cost_matrix")
        eye = torch.eye(n, dtype=torch.bool)
        J.ok((d[:, eye] == 0).all(), "diagonal", "cost matrix diagonal is not zero")
        lo, hi = p.get("min_dist", 0.0), p.get("max_dist", 1.0)
        r = dist_range(p["dist"], 0.0, 1.0)
        off = d[:, ~eye]
        J.within(off, lo + r[0] * (hi - lo), lo + r[1] * (hi - lo), "cost_matrix")
        if p.get("tmat_class", True):
            tol = 1e-6 * max(1.0, abs(hi), abs(lo))
            worst = 0.0
            for k in range(n):
                gap = (d[:, :, [k]] + d[:, [k], :] - d).min()
                worst = min(worst, float(gap))
            J.ok(worst >= -tol, "triangle", f"triangle inequality violated by {-worst:.3g} (> {tol:.1g}) with tmat_class=True")
        if "dist" in spies:
            J.ok(len(spies["dist"].out) >= 1, "dist_sampler_ignored", "explicit dist_sampler object was never sampled")

    def bound(self, p, row, gen):
        return p["num_loc"]


# --------------------------------------------------------------------------- CVRP / CVRPTW
CAP_TABLE = {10: 20.0, 15: 25.0, 20: 30.0, 30: 33.0, 40: 37.0, 50: 40.0, 60: 43.0, 75: 45.0, 100: 50.0, 125: 55.0, 150: 60.0,
             200: 70.0, 500: 100.0, 1000: 150.0}


def default_capacity(n):
    if n in CAP_TABLE:
        return CAP_TABLE[n]
    return CAP_TABLE[min(CAP_TABLE.keys(), key=lambda x: abs(x - n))]


def draw_demand(draw, p):
    """min/max demand and optional capacity override with max_demand <= capacity"""
    if draw(st.integers(0, 2)) == 0:
        lo = draw(st.integers(1, 9))
        p["min_demand"], p["max_demand"] = lo, draw(st.integers(lo, 20))
    if draw(st.integers(0, 2)) == 0:
        mx = p.get("max_demand", 10)
        p["capacity"] = float(draw(st.one_of(st.integers(mx, mx + 3), st.integers(mx, 100))))
    if draw(st.integers(0, 5)) == 0:
        p["demand_distribution"] = "uniform"
    elif draw(st.integers(0, 2)) == 0:
        # every route of `demand_distribution` (Uniform class, callable, constant int / float) and the explicit
        # `demand_sampler` object; the raw samples live on [min_demand - 1, max_demand - 1]
        p["demand"] = draw(scalar_dist(["uniform_cls", "callable", "callable_sub", "const", "const", "spy", "sampler_sub"]))
    if draw(st.integers(0, 3)) == 0:
        # vehicle_capacity (capacity in normalised demand units, read by the env's reset): kept >= the largest
        # normalised demand max_demand / capacity, the precondition of a solvable instance
        n = p["num_loc"]
        top = p.get("max_demand", 10) / (p.get("capacity") or default_capacity(n))
        ok = [v for v in (2.0, 1.5, 0.75, 0.5, 1.25) if v >= top]
        if ok:
            p["vehicle_capacity"] = draw(st.sampled_from(ok))


def demand_kwargs(p, spies):
    kw = {}
    for k in ("min_demand", "max_demand", "capacity", "demand_distribution", "vehicle_capacity"):
        if k in p:
            kw[k] = p[k]
    if "demand" in p:
        kw.update(scalar_kwargs(p["demand"], "demand", p.get("min_demand", 1) - 1, p.get("max_demand", 10) - 1, spies))
    return kw


def check_demand(J, td, p, B, n, key="demand", shape=None, spies=None):
    cap = p.get("capacity") or default_capacity(n)
    dem = J.shape(td, key, shape or (B, n), "float")
    J.finite(dem, key)
    J.ctx.event("capacity:" + ("override" if p.get("capacity") else "table" if n in CAP_TABLE else "closest"))
    lo, hi = p.get("min_demand", 1), p.get("max_demand", 10)
    units = dem.double() * cap
    J.ok(is_int(units), "demand_not_integer_over_capacity", f"demand*capacity is not an integer (capacity {cap})",
         (lambda: {"first": first_bad(is_int(units))}))
    u = units.round()
    good = (u >= lo) & (u <= hi)
    J.ok(good, "demand_range", f"integer demand outside [{lo},{hi}] (capacity {cap}): min {float(u.min()) if u.numel() else None} "
                                f"max {float(u.max()) if u.numel() else None}")
    J.ok(dem <= 1.0 + 1e-6, "demand_above_capacity", "normalised demand above the vehicle capacity 1.0")
    if "vehicle_capacity" in p:
        J.ctx.event(f"vehicle_capacity:{'<1' if p['vehicle_capacity'] < 1 else '>1'}")
        J.ok(dem <= p["vehicle_capacity"] + 1e-6, "demand_above_vehicle_capacity",
             f"normalised demand above vehicle_capacity={p['vehicle_capacity']} although max_demand/capacity is not")
    if "demand" in p:
        d = p["demand"]
        J.ctx.event(f"demand_dist:{d['kind']}")
        r = scalar_range(d, lo - 1, hi - 1)
        wlo, whi = math.floor(r[0] + 1e-9) + 1, math.floor(r[1] + 1e-9) + 1  # integer demand = int(raw sample) + 1
        J.ok((u >= wlo) & (u <= whi), f"demand_range|{d['kind']}",
             f"integer demand outside [{wlo},{whi}] = int(raw sample on [{r[0]},{r[1]}]) + 1: min {float(u.min())} max {float(u.max())}")
        if d["kind"] == "spy" and spies is not None:
            sp = spies.get("demand")
            if J.ok(sp is not None and len(sp.out) >= 1, "demand_sampler_ignored", "explicit demand_sampler object was never sampled"):
                want = (sp.out[-1].int() + 1).float() / cap
                J.ok(want.shape == dem.shape and torch.equal(want, dem), "demand_sampler_output",
                     "emitted demand is not (int(sample) + 1) / capacity of what the explicit demand_sampler returned")
    c = td["capacity"]
    J.ok(c.numel() == B and bool((c == cap).all()), "capacity_value", f"capacity tensor {tuple(c.shape)} != configured {cap}")
    return dem


class CVRP(G):
    name, gen_path, env_name, spec = "cvrp", "rl4co.envs.routing.cvrp.generator:CVRPGenerator", "CVRPEnv", "cvrp"

    def params(self, tier):
        @st.composite
        def s(draw):
            p = draw(coord_params(tier))
            draw_demand(draw, p)
            return p
        return s()

    def kwargs(self, p, spies, B):
        kw = coord_kwargs(p, spies)
        kw.update(demand_kwargs(p, spies))
        return kw

    def exclude(self, p, B):
        return excl_points(p)

    def check(self, J, td, p, kw, B, gen, spies):
        n = p["num_loc"]
        J.keys(td, ["locs", "depot", "demand", "capacity"])
        check_coords(J, td, p, B, n, spies)
        check_demand(J, td, p, B, n, spies=spies)

    def bound(self, p, row, gen):
        return 2 * p["num_loc"] + 1


TW_LOC = ["default"] * 5 + ["uniform_str", "uniform_cls", "spy", "sampler_sub", "cluster", "mixed", "center", "const"]
TW_DEPOT = ["none"] * 5 + ["uniform_str", "spy", "sampler_sub", "center", "corner", "const"]
TW_BOXES = [[0.0, 150.0]] * 5 + [[0.0, 100.0], [0.0, 1.0], [50.0, 150.0], [0.0, 10.0], [0.0, 169.0], [0.0, 40.0]]


def tw_precondition(p):
    ext = coord_extent(p)
    return 2 * SQ2 * (ext[1] - ext[0]) + 2.0


class CVRPTW(CVRP):
    name, gen_path, env_name, spec = "cvrptw", "rl4co.envs.routing.cvrptw.generator:CVRPTWGenerator", "CVRPTWEnv", "cvrptw"

    def params(self, tier):
        @st.composite
        def s(draw):
            p = draw(coord_params(tier, TW_LOC, TW_DEPOT, boxes=TW_BOXES))
            draw_demand(draw, p)
            need = math.ceil(tw_precondition(p))
            if need <= 480 and draw(st.integers(0, 2)) > 0:
                pass  # default max_time 480
            else:
                p["max_time"] = float(draw(st.one_of(st.integers(need, need + 3), st.integers(need, max(need, 1000)))))
            _opt(draw, p, "scale", st.booleans(), 2)
            return p
        return s()

    def kwargs(self, p, spies, B):
        kw = super().kwargs(p, spies, B)
        for k in ("max_time", "scale"):
            if k in p:
                kw[k] = p[k]
        return kw

    def check(self, J, td, p, kw, B, gen, spies):
        n = p["num_loc"]
        T = float(p.get("max_time", 480))
        scaled = bool(p.get("scale", False))
        J.keys(td, ["locs", "depot", "demand", "capacity", "durations", "time_windows"])
        locs, dep = check_coords(J, td, p, B, n, spies, scale=(T if scaled else 1.0))
        check_demand(J, td, p, B, n, spies=spies)
        check_tw(J, td, locs, dep, B, n, T, scaled)
        J.ctx.event("cvrptw:scaled" if scaled else "cvrptw:unscaled")
        if T <= tw_precondition(p) + 3:
            J.ctx.event("cvrptw:max_time_at_precondition")


def check_tw(J, td, locs, dep, B, n, T, scaled):
    dur = J.shape(td, "durations", (B, n + 1))
    tw = J.shape(td, "time_windows", (B, n + 1, 2))
    unit = T if scaled else 1.0  # emitted value * unit = value in time units
    twd, durd = tw.double() * unit, dur.double() * unit
    d = dist0(dep, locs) * unit
    tol = 1e-4 * max(1.0, T)
    J.ok(torch.isfinite(twd).all() and torch.isfinite(durd).all(), "nonfinite|time_windows", "NaN/inf in windows or durations")
    J.ok((twd[:, 0, 0] == 0).all() and ((twd[:, 0, 1] - T).abs() <= 1e-6 * T).all(), "depot_window",
         f"depot window is not [0, max_time={T}]")
    J.ok(durd >= 0, "negative_duration", "negative service duration")
    J.ok(durd[:, 0] == 0, "depot_duration", "depot service duration is not 0")
    J.ok(twd >= 0, "negative_window", "negative time-window bound")
    s, e, du = twd[:, 1:, 0], twd[:, 1:, 1], durd[:, 1:]
    J.ok(tw[..., 0] < tw[..., 1], "tw_not_ordered", "a time window has start >= end", (lambda: {"first": first_bad(tw[..., 0] < tw[..., 1])}))
    J.ok(is_int(s, 1e-3) & is_int(e, 1e-3), "tw_not_integer", "window bounds are not integer time units")
    reach = d <= e + tol
    J.ok(reach, "tw_unreachable", "customer cannot be reached from the depot before its window closes (d(0,i) > end_i)",
         (lambda: {"first": first_bad(reach)}))
    back_e = e + du + d <= T + tol
    J.ok(back_e, "tw_end_no_return", "end_i + duration_i + d(i,0) > max_time (docstring: end bounded by duration and distance back)",
         (lambda: {"first": first_bad(back_e)}))
    back_s = s + du + d <= T + tol
    J.ok(back_s, "tw_start_no_return", "start_i + duration_i + d(i,0) > max_time", (lambda: {"first": first_bad(back_s)}))
    lower = s >= d.floor() - tol
    J.ok(lower, "tw_start_before_travel", "window start below the (integer) travel time from the depot", (lambda: {"first": first_bad(lower)}))


# --------------------------------------------------------------------------- OP
ML_TABLE = {20: 2.0, 50: 3.0, 100: 4.0}


def default_maxlen(n):
    return ML_TABLE.get(n) or ML_TABLE[min(ML_TABLE.keys(), key=lambda x: abs(x - n))]


class OP(G):
    name, gen_path, env_name, spec = "op", "rl4co.envs.routing.op.generator:OPGenerator", "OPEnv", "op"

    def params(self, tier):
        @st.composite
        def s(draw):
            p = draw(coord_params(tier))
            _opt(draw, p, "prize_type", st.sampled_from(["dist", "unif", "const"]), 1)
            k = draw(st.integers(0, 3))
            if k == 1:
                p["max_length"] = draw(q(0.125, 6))
            elif k == 2:
                p["max_length_list"] = draw(st.lists(q(0.125, 6), min_size=1, max_size=6))
            return p
        return s()

    def maxlen_tensor(self, p, B):
        l = p["max_length_list"]
        return torch.tensor([l[b % len(l)] for b in range(B)], dtype=torch.float32)

    def kwargs(self, p, spies, B):
        kw = coord_kwargs(p, spies)
        if "prize_type" in p:
            kw["prize_type"] = p["prize_type"]
        if "max_length" in p:
            kw["max_length"] = p["max_length"]
        if "max_length_list" in p:
            kw["max_length"] = self.maxlen_tensor(p, B)
        return kw

    def exclude(self, p, B):
        e = excl_points(p)
        if e:
            return e
        if p.get("prize_type", "dist") == "dist":
            pts = [p["loc"]["kind"]] + ([p["depot"]["kind"]] if p["depot"]["kind"] != "none" else [])
            if all(k in ("const", "center", "corner") for k in pts):
                return "op_dist_prize_coincident_points"
        return None

    def check(self, J, td, p, kw, B, gen, spies):
        n = p["num_loc"]
        J.keys(td, ["locs", "depot", "prize", "max_length"])
        locs, dep = check_coords(J, td, p, B, n, spies)
        prize = J.shape(td, "prize", (B, n), "float")
        ml = J.shape(td, "max_length", (B,), "float")
        want = self.maxlen_tensor(p, B) if "max_length_list" in p else torch.full((B,), float(p.get("max_length") or default_maxlen(n)))
        J.ok(torch.equal(ml, want), "max_length_value", f"max_length {ml[:4].tolist()} != configured {want[:4].tolist()}")
        pt = p.get("prize_type", "dist")
        J.ctx.event(f"op:prize_type={pt}")
        J.ctx.event("op:max_length=" + ("tensor" if "max_length_list" in p else "scalar" if "max_length" in p else
                                        ("table" if n in ML_TABLE else "closest")))
        J.finite(prize, f"prize|{pt}")
        if pt == "const":
            J.ok(prize == 1.0, "prize_range|const", "constant prizes are not 1")
        else:
            J.within(prize, 0.01, 1.0, pt, what="prize_range")
            J.ok(is_int(prize.double() * 100), f"prize_grid|{pt}", "prizes are not multiples of 0.01")
        if pt == "dist":
            d = dist0(dep, locs)
            far = d.argmax(-1, keepdim=True)
            J.ok(((prize.max(-1).values - 1.0).abs() <= 1e-6) & (prize.gather(1, far).squeeze(-1) >= 0.99 - 1e-6), "prize_dist_max",
                 "farthest customer does not carry the maximum prize 1.0")
            # monotone in the distance to the depot (ties / rounding aside)
            order = d.argsort(-1)
            ps, ds = prize.gather(1, order).double(), d.gather(1, order)
            dec = (ps[:, 1:] < ps[:, :-1] - 1e-9) & (ds[:, 1:] > ds[:, :-1] * (1 + 1e-5) + 1e-9)
            J.ok(~dec, "prize_dist_monotone", "a farther customer has a smaller distance-based prize")

    def bound(self, p, row, gen):
        return p["num_loc"] + 2


# --------------------------------------------------------------------------- PCTSP
class PCTSP(G):
    name, gen_path, env_name, spec = "pctsp", "rl4co.envs.routing.pctsp.generator:PCTSPGenerator", "PCTSPEnv", "pctsp"

    def params(self, tier):
        @st.composite
        def s(draw):
            p = draw(coord_params(tier))
            _opt(draw, p, "penalty_factor", q(0.5, 6), 2)
            _opt(draw, p, "max_penalty", q(0.5, 8), 3)
            p["stochastic"] = draw(st.booleans())
            return p
        return s()

    def env_cls_for(self, p):
        import rl4co.envs as E
        return E.SPCTSPEnv if p.get("stochastic") else E.PCTSPEnv

    def kwargs(self, p, spies, B):
        kw = coord_kwargs(p, spies)
        for k in ("penalty_factor", "max_penalty"):
            if k in p:
                kw[k] = p[k]
        return kw

    def exclude(self, p, B):
        return excl_points(p)

    def check(self, J, td, p, kw, B, gen, spies):
        n = p["num_loc"]
        J.keys(td, ["locs", "depot", "penalty", "deterministic_prize", "stochastic_prize"])
        check_coords(J, td, p, B, n, spies)
        pen = J.shape(td, "penalty", (B, n), "float")
        det = J.shape(td, "deterministic_prize", (B, n), "float")
        sto = J.shape(td, "stochastic_prize", (B, n), "float")
        mp = (p.get("max_penalty") or default_maxlen(n)) * p.get("penalty_factor", 3.0) / n
        J.within(pen, 0.0, mp, "penalty", what="penalty_range")
        J.within(det, 0.0, 4.0 / n, "deterministic_prize", what="prize_range")
        J.ok((sto >= 0) & (sto.double() <= 2 * det.double() * (1 + 1e-6)), "prize_range|stochastic_prize",
             "stochastic prize outside [0, 2*deterministic prize]")

    def bound(self, p, row, gen):
        return p["num_loc"] + 1


# --------------------------------------------------------------------------- PDP
class PDP(G):
    name, gen_path, env_name, spec = "pdp", "rl4co.envs.routing.pdp.generator:PDPGenerator", "PDPEnv", "pdp"
    env_kw_keys = ("force_start_at_depot",)

    def params(self, tier):
        @st.composite
        def s(draw):
            p = draw(coord_params(tier))
            _opt(draw, p, "force_start_at_depot", st.booleans(), 2)
            return p
        return s()

    def kwargs(self, p, spies, B):
        return coord_kwargs(p, spies)

    def neven(self, p):
        return p["num_loc"] + (p["num_loc"] % 2)

    def exclude(self, p, B):
        return excl_points(p)

    def check(self, J, td, p, kw, B, gen, spies):
        n = self.neven(p)
        J.keys(td, ["locs", "depot"])
        J.ok(gen.num_loc == n and n % 2 == 0, "odd_size", f"generator num_loc {gen.num_loc} is not the even size {n}")
        if p["num_loc"] % 2:
            J.ctx.event("pdp:odd_num_loc_requested")
        check_coords(J, td, p, B, n, spies)

    def bound(self, p, row, gen):
        return self.neven(p) + (1 if p.get("force_start_at_depot") else 0)


# --------------------------------------------------------------------------- mTSP
class MTSP(G):
    name, gen_path, env_name, spec, with_depot = "mtsp", "rl4co.envs.routing.mtsp.generator:MTSPGenerator", "MTSPEnv", "mtsp", False
    env_kw_keys = ("cost_type",)

    def params(self, tier):
        @st.composite
        def s(draw):
            p = draw(coord_params(tier, with_depot=False))
            if draw(st.integers(0, 3)) > 0:
                lo = draw(st.integers(1, 8))
                p["min_num_agents"], p["max_num_agents"] = lo, draw(st.integers(lo, lo + 6))
            _opt(draw, p, "cost_type", st.sampled_from(["minmax", "sum"]), 3)
            return p
        return s()

    def kwargs(self, p, spies, B):
        kw = coord_kwargs(p, spies, with_depot=False)
        for k in ("min_num_agents", "max_num_agents"):
            if k in p:
                kw[k] = p[k]
        return kw

    def exclude(self, p, B):
        return excl_points(p, False)

    def check(self, J, td, p, kw, B, gen, spies):
        J.keys(td, ["locs", "num_agents"])
        check_coords(J, td, p, B, p["num_loc"], spies, depot=False)
        na = J.shape(td, "num_agents", (B,), "int")
        J.within(na, p.get("min_num_agents", 5), p.get("max_num_agents", 5), "num_agents", tol=0, what="agents_range")

    def bound(self, p, row, gen):
        return max(1, (p["num_loc"] - 1) + (int(row["num_agents"]) - 1))


# --------------------------------------------------------------------------- SVRP
class SVRP(G):
    name, gen_path, env_name, spec = "svrp", "rl4co.envs.routing.svrp.generator:SVRPGenerator", "SVRPEnv", "svrp"

    def params(self, tier):
        @st.composite
        def s(draw):
            p = draw(coord_params(tier))
            if draw(st.integers(0, 2)) > 0:
                p["tech_costs"] = draw(st.one_of(st.lists(st.integers(1, 9), min_size=2, max_size=5),
                                                 st.lists(st.integers(1, 9), min_size=1, max_size=3)))
            if draw(st.integers(0, 2)) == 0:
                lo = draw(q(0, 5))
                p["min_skill"], p["max_skill"] = lo, lo + draw(q(0.125, 10))
            return p
        return s()

    def kwargs(self, p, spies, B):
        kw = coord_kwargs(p, spies)
        for k in ("tech_costs", "min_skill", "max_skill"):
            if k in p:
                kw[k] = p[k]
        return kw

    def exclude(self, p, B):
        return excl_points(p)

    def T(self, p):
        return len(p.get("tech_costs", [1, 2, 3]))

    def check(self, J, td, p, kw, B, gen, spies):
        n, T = p["num_loc"], self.T(p)
        J.keys(td, ["locs", "depot", "techs", "skills"])
        check_coords(J, td, p, B, n, spies)
        techs = J.shape(td, "techs", (B, T, 1), "float")
        skills = J.shape(td, "skills", (B, n, 1), "float")
        J.within(techs, p.get("min_skill", 1.0), p.get("max_skill", 10.0), "techs", what="skill_range")
        J.ok(techs[:, 1:] >= techs[:, :-1], "techs_not_sorted", "technician skill levels are not ascending")
        top = techs.max(dim=1, keepdim=True).values
        J.ok((skills >= 0) & (skills <= top), "customer_unservable", "a customer requires more skill than the best technician has")

    def bound(self, p, row, gen):
        return p["num_loc"] + self.T(p)


# --------------------------------------------------------------------------- MDCPDP
class MDCPDP(G):
    name, gen_path, env_name, spec = "mdcpdp", "rl4co.envs.routing.mdcpdp.generator:MDCPDPGenerator", "MDCPDPEnv", None
    env_kw_keys = ("problem_mode", "reward_mode")  # start_mode='random' is an env-level behaviour (C01/C02), not a generator setting

    def params(self, tier):
        @st.composite
        def s(draw):
            p = draw(coord_params(tier, depot_kinds=["none"] * 4 + ["uniform_str", "uniform_cls", "spy", "sampler_sub", "const", "normal", "gaussian"]))
            _opt(draw, p, "num_depot", st.integers(1, 6), 1)
            _opt(draw, p, "depot_mode", st.sampled_from(["single", "multiple"]), 2)
            if draw(st.booleans()):
                lo = draw(st.integers(1, 4))
                p["min_capacity"], p["max_capacity"] = lo, draw(st.integers(lo, lo + 4))
            if draw(st.integers(0, 2)) == 0:
                lo = draw(q(0, 2))
                p["min_lateness_weight"], p["max_lateness_weight"] = lo, lo + draw(q(0, 2))
            if draw(st.integers(0, 2)) == 0:
                # lateness_weight_distribution ("uniform", Uniform, callable, constant) / explicit lateness_weight_sampler
                p["lw"] = draw(scalar_dist(["uniform_str", "uniform_cls", "callable", "callable_sub", "const", "spy", "sampler_sub"]))
            _opt(draw, p, "problem_mode", st.sampled_from(["close", "open"]), 2)
            _opt(draw, p, "reward_mode", st.sampled_from(["lateness", "lateness_square", "minmax", "minsum"]), 3)
            return p
        return s()

    def kwargs(self, p, spies, B):
        kw = coord_kwargs(p, spies)
        for k in ("num_depot", "depot_mode", "min_capacity", "max_capacity", "min_lateness_weight", "max_lateness_weight"):
            if k in p:
                kw[k] = p[k]
        if "lw" in p:
            kw.update(scalar_kwargs(p["lw"], "lateness_weight", p.get("min_lateness_weight", 1.0),
                                    p.get("max_lateness_weight", 1.0), spies))
        return kw

    def neven(self, p):
        return p["num_loc"] + (p["num_loc"] % 2)

    def exclude(self, p, B):
        return excl_points(p, False)

    def check(self, J, td, p, kw, B, gen, spies):
        n, nd = self.neven(p), p.get("num_depot", 5)
        J.keys(td, ["locs", "depot", "capacity", "lateness_weight"])
        J.ok(gen.num_loc == n, "odd_size", f"generator num_loc {gen.num_loc} is not the even size {n}")
        check_coords(J, td, p, B, n, spies, depot=False)
        dep = J.shape(td, "depot", (B, nd, 2), "float")
        lo, hi = p["min_loc"], p["max_loc"]
        rr = dist_range(p["depot"], lo, hi) if p["depot"]["kind"] != "none" else (lo, hi)
        if rr is not None:
            J.within(dep, rr[0], rr[1], "depot")
        if p.get("depot_mode", "multiple") == "single":
            J.ok(dep == dep[:, :1], "single_depot_mode", "depot_mode='single' emitted different depot coordinates")
        if "depot" in spies:
            J.ok(len(spies["depot"].out) >= 1, "depot_sampler_ignored", "explicit depot_sampler object was never sampled")
        cap = td["capacity"]
        J.ok(cap.dtype in (torch.int64, torch.int32), "dtype|capacity", f"capacity dtype {cap.dtype}")
        J.within(cap, p.get("min_capacity", 1), p.get("max_capacity", 5), "capacity", tol=0, what="capacity_range")
        lw = J.shape(td, "lateness_weight", (B, 1), "float")
        J.within(lw, p.get("min_lateness_weight", 1.0), p.get("max_lateness_weight", 1.0), "lateness_weight", what="lateness_range")
        if "lw" in p:
            d = p["lw"]
            J.ctx.event(f"lateness_weight_dist:{d['kind']}")
            r = scalar_range(d, p.get("min_lateness_weight", 1.0), p.get("max_lateness_weight", 1.0))
            J.within(lw, r[0], r[1], f"lateness_weight|{d['kind']}", what="lateness_range")
            if d["kind"] == "spy":
                sp = spies.get("lateness_weight")
                if J.ok(sp is not None and len(sp.out) >= 1, "lateness_weight_sampler_ignored",
                        "explicit lateness_weight_sampler object was never sampled"):
                    J.ok(sp.out[-1].shape == lw.shape and torch.equal(sp.out[-1], lw), "lateness_weight_sampler_output",
                         "emitted lateness_weight is not what the explicit lateness_weight_sampler returned")
        # the consuming env (MDCPDPEnv._step/_get_reward, MDCPDPInitEmbedding) reads num_depot = capacity.shape[-1]
        slc = "num_depot=1" if nd == 1 else "num_depot>1"
        J.ok(tuple(cap.shape) == (B, nd), f"capacity_shape|{slc}",
             f"capacity has shape {tuple(cap.shape)} but the env reads num_depot = capacity.shape[-1] (num_depot={nd})")

    def bound(self, p, row, gen):
        return self.neven(p) + 2 * p.get("num_depot", 5) + 1


# --------------------------------------------------------------------------- MTVRP
PRESETS = {
    "all": None, "single_feat": None, "single_feat_otw": None,
    "cvrp": "", "ovrp": "O", "vrpb": "B", "vrpl": "L", "vrptw": "T", "ovrptw": "OT", "ovrpb": "OB", "ovrpl": "OL", "vrpbl": "BL",
    "vrpbtw": "BT", "vrpltw": "LT", "ovrpbl": "OBL", "ovrpbtw": "OBT", "ovrpltw": "OLT", "vrpbltw": "BLT", "ovrpbltw": "OBLT",
}


def mtvrp_capacity(n):
    return 30 + (n // 5 if n > 20 else 0)


class MTVRP(G):
    name, gen_path, env_name, spec, with_depot = "mtvrp", "rl4co.envs.routing.mtvrp.generator:MTVRPGenerator", "MTVRPEnv", "mtvrp", False

    def params(self, tier):
        @st.composite
        def s(draw):
            p = {"num_loc": draw(sizes(tier))}
            box = draw(st.sampled_from([[0.0, 1.0]] * 4 + [[0.25, 0.75], [0.0, 2.0], [1.0, 2.0], [0.0, 0.5]]))
            p["min_loc"], p["max_loc"] = box
            p["loc"] = draw(loc_dist(["default"] * 8 + ["uniform_str", "spy"]))
            ext = box[1] - box[0]
            p["variant_preset"] = draw(st.sampled_from(list(PRESETS) + ["all", "all"]))
            _opt(draw, p, "subsample", st.booleans(), 4)
            if p.get("subsample") is False and draw(st.booleans()):
                p["variant_preset"] = None
            _opt(draw, p, "use_combinations", st.booleans(), 3)
            if draw(st.integers(0, 2)) == 0:
                lo = draw(st.integers(1, 9))
                p["min_demand"], p["max_demand"] = lo, draw(st.integers(lo, 15))
            if draw(st.integers(0, 2)) == 0:
                lo = draw(st.integers(1, 9))
                p["min_backhaul"], p["max_backhaul"] = lo, draw(st.integers(lo, 15))
            mx = max(p.get("max_demand", 10), p.get("max_backhaul", 10))
            if draw(st.integers(0, 2)) == 0:
                p["capacity"] = float(draw(st.one_of(st.integers(mx, mx + 2), st.integers(mx, 80))))
            _opt(draw, p, "scale_demand", st.booleans(), 3)
            _opt(draw, p, "backhaul_ratio", st.sampled_from([0.0, 0.2, 0.5, 0.9, 1.0]), 3)
            _opt(draw, p, "speed", st.sampled_from([0.5, 1.0, 2.0]), 4)
            need_l = 2 * SQ2 * ext
            if need_l >= 2.95 or draw(st.integers(0, 2)) == 0:
                p["distance_limit"] = math.ceil((need_l + 0.01) * 8) / 8 + draw(st.sampled_from([0.0, 0.0, 0.5, 2.0]))
            need_t = 2 * SQ2 * ext / p.get("speed", 1.0) + 0.5
            if need_t >= 4.6 or draw(st.integers(0, 2)) == 0:
                p["max_time"] = math.ceil(need_t * 8) / 8 + draw(st.sampled_from([0.0, 0.0, 1.0, 5.0]))
            return p
        return s()

    def kwargs(self, p, spies, B):
        kw = {"num_loc": p["num_loc"], "min_loc": p["min_loc"], "max_loc": p["max_loc"], "variant_preset": p["variant_preset"]}
        kw.update(dist_kwargs(p["loc"], "loc", p["min_loc"], p["max_loc"], spies))
        for k in ("subsample", "use_combinations", "min_demand", "max_demand", "min_backhaul", "max_backhaul", "capacity",
                  "scale_demand", "backhaul_ratio", "speed", "distance_limit", "max_time"):
            if k in p:
                kw[k] = p[k]
        return kw

    def env_kwargs(self, p):
        return {"check_solution": False}

    def check(self, J, td, p, kw, B, gen, spies):
        has_o, has_tw, has_l, has_b = check_mtvrp(J, td, p, B, spies)
        ctx = J.ctx
        ctx.event(f"mtvrp:preset={p['variant_preset']}")
        for nm, h in (("O", has_o), ("TW", has_tw), ("L", has_l), ("B", has_b)):
            if bool(h.any()):
                ctx.event(f"mtvrp:instances_with_{nm}")
        want = PRESETS.get(p["variant_preset"]) if p.get("subsample", True) else None
        if want is not None and "B" in want and not bool(has_b.all()):
            ctx.event("mtvrp:B_preset_instance_without_backhaul(not flagged)")

    def bound(self, p, row, gen):
        return 2 * p["num_loc"] + 1


def check_mtvrp(J, td, p, B, spies):
    n = p["num_loc"]
    J.keys(td, ["locs", "demand_backhaul", "demand_linehaul", "distance_limit", "time_windows", "service_time",
                "vehicle_capacity", "capacity_original", "open_route", "speed"])
    locs = J.shape(td, "locs", (B, n + 1, 2), "float")
    J.within(locs, p["min_loc"], p["max_loc"], "locs")
    if "loc" in spies and len(spies["loc"].out) < 1:
        # observation only (DESIGN.md): MTVRPGenerator draws locations uniformly and ignores loc_sampler /
        # loc_distribution; the emitted coordinates still respect [min_loc, max_loc], which is what C18 asserts
        J.ctx.event("observation:mtvrp_loc_sampler_ignored")
    lh = J.shape(td, "demand_linehaul", (B, n + 1), "float")
    bh = J.shape(td, "demand_backhaul", (B, n + 1), "float")
    tw = J.shape(td, "time_windows", (B, n + 1, 2), "float")
    svc = J.shape(td, "service_time", (B, n + 1), "float")
    lim = J.shape(td, "distance_limit", (B, 1), "float")
    vc = J.shape(td, "vehicle_capacity", (B, 1), "float")
    co = J.shape(td, "capacity_original", (B, 1), "float")
    opn = J.shape(td, "open_route", (B, 1), "bool")
    spd = J.shape(td, "speed", (B, 1), "float")
    cap = float(p.get("capacity") or mtvrp_capacity(n))
    speed = p.get("speed", 1.0)
    scale = p.get("scale_demand", True)
    J.ok(co == cap, "capacity_value", f"capacity_original != configured capacity {cap}")
    J.ok(vc == (1.0 if scale else cap), "capacity_value|vehicle", f"vehicle_capacity != {1.0 if scale else cap}")
    J.ok(spd == speed, "speed_value", f"speed != configured {speed}")
    # ---- demands
    unit = cap if scale else 1.0
    L, Bk = lh.double() * unit, bh.double() * unit
    J.ok((L[:, 0] == 0) & (Bk[:, 0] == 0), "depot_demand", "depot carries demand")
    J.ok(is_int(L) & is_int(Bk), "demand_not_integer_over_capacity", "demand*capacity is not an integer")
    L, Bk = L.round()[:, 1:], Bk.round()[:, 1:]
    one = (L > 0) ^ (Bk > 0)
    J.ok(one, "linehaul_xor_backhaul", "a customer has both or neither of linehaul / backhaul demand", (lambda: {"first": first_bad(one)}))
    dl, dh = p.get("min_demand", 1), p.get("max_demand", 10)
    bl, bhh = p.get("min_backhaul", 1), p.get("max_backhaul", 10)
    in_b = (Bk == 0) | ((Bk >= bl) & (Bk <= bhh))
    J.ok(in_b, "demand_range|backhaul", f"backhaul demand outside [{bl},{bhh}]")
    # a removed backhaul customer becomes a linehaul customer with its backhaul amount
    in_l = (L == 0) | ((L >= dl) & (L <= dh)) | ((L >= bl) & (L <= bhh))
    J.ok(in_l, "demand_range|linehaul", f"linehaul demand outside [{dl},{dh}] (or a converted backhaul amount [{bl},{bhh}])")
    J.ok((lh <= vc + 1e-6) & (bh <= vc + 1e-6), "demand_above_capacity", "demand above vehicle capacity")
    # ---- features
    has_o = opn.squeeze(-1)
    has_tw = torch.isfinite(tw[..., 1]).any(-1)
    has_l = torch.isfinite(lim).squeeze(-1)
    has_b = (Bk > 0).any(-1)
    preset = p["variant_preset"]
    sub = p.get("subsample", True)
    nfeat = has_o.long() + has_tw.long() + has_l.long() + has_b.long()
    if not sub:
        J.ok(has_o & has_tw & has_l, "feature_missing|subsample_off", "subsample=False must keep every attribute (OVRPBLTW)")
    elif PRESETS.get(preset) is not None:
        want = PRESETS[preset]
        for letter, has, nm in (("O", has_o, "open_route"), ("T", has_tw, "time_windows"), ("L", has_l, "distance_limit")):
            if letter in want:
                J.ok(has, f"feature_missing|{nm}", f"preset {preset!r} instance lacks {nm}", (lambda: {"first": first_bad(has)}))
            else:
                J.ok(~has, f"feature_unrequested|{nm}", f"preset {preset!r} instance carries {nm}", (lambda: {"first": first_bad(~has)}))
        if "B" not in want:
            J.ok(~has_b, "feature_unrequested|backhaul", f"preset {preset!r} instance carries backhaul demand")
    elif preset == "single_feat" or (preset == "all" and p.get("use_combinations", True) is False):
        J.ok(nfeat <= 1, "feature_unrequested|single_feat", f"preset {preset!r} without combinations emitted an instance with >1 feature")
    elif preset == "single_feat_otw":
        okc = (nfeat <= 1) | ((nfeat == 2) & has_o & has_tw)
        J.ok(okc, "feature_unrequested|single_feat_otw", "single_feat_otw emitted a combination other than O+TW")
    # ---- time windows
    d0 = dist0(locs[:, 0], locs[:, 1:]) / speed
    T = float(p.get("max_time", 4.6))
    twd, sv = tw.double(), svc.double()
    no = ~has_tw
    if bool(no.any()):
        J.ok((twd[no][..., 0] == 0) & (twd[no][..., 1] == INF), "tw_default", "instance without TW has windows other than [0, inf)")
        J.ok(sv[no] == 0, "tw_default|service", "instance without TW has non-zero service time")
    if bool(has_tw.any()):
        w, s_, d_ = twd[has_tw], sv[has_tw], d0[has_tw]
        tol = 1e-4
        J.ok(torch.isfinite(w).all(), "nonfinite|time_windows", "TW instance has non-finite window bounds")
        J.ok((w[:, 0, 0] == 0) & ((w[:, 0, 1] - T).abs() <= 1e-6 * T) & (s_[:, 0] == 0), "depot_window",
             f"depot window is not [0, max_time={T}] with zero service time")
        st_, en, sc = w[:, 1:, 0], w[:, 1:, 1], s_[:, 1:]
        J.ok(st_ < en, "tw_not_ordered", "a time window has start >= end")
        J.within(en - st_, 0.18, 0.2, "tw_length", tol=1e-5, what="tw_length")
        J.within(sc, 0.15, 0.18, "service_time", tol=1e-5, what="service_range")
        reach = d_ <= st_ + tol
        J.ok(reach, "tw_start_before_travel", "window opens before the customer can be reached from the depot", (lambda: {"first": first_bad(reach)}))
        J.ok(d_ < en, "tw_unreachable", "customer cannot be reached from the depot before its window closes")
        back = st_ + sc + d_ <= T + tol
        J.ok(back, "tw_start_no_return", "start_i + service_i + d(i,0) > max_time", (lambda: {"first": first_bad(back)}))
        back_e = en + sc + d_ <= T + tol
        J.ok(back_e, "tw_end_no_return", "end_i + service_i + d(i,0) > max_time", (lambda: {"first": first_bad(back_e)}))
    # ---- distance limit
    if bool(has_l.any()):
        want_l = float(p.get("distance_limit", 3.0))
        J.ok(lim[has_l] == want_l, "limit_value", f"distance_limit != configured {want_l}")
        dd = dist0(locs[:, 0], locs[:, 1:])[has_l]
        J.ok(2 * dd < want_l, "limit_unreachable", "2*d(0,i) >= distance_limit")
    return has_o, has_tw, has_l, has_b


# --------------------------------------------------------------------------- FJSP / JSSP
def check_jobshop(J, td, B, jobs, mas, lo_ops, hi_ops, jssp):
    nmax = hi_ops * jobs
    st_ = J.shape(td, "start_op_per_job", (B, jobs), "int")
    en = J.shape(td, "end_op_per_job", (B, jobs), "int")
    pt = J.shape(td, "proc_times", (B, mas, nmax))
    pad = J.shape(td, "pad_mask", (B, nmax), "bool")
    J.finite(pt, "proc_times")
    J.ok(st_[:, 0] == 0, "start_index", "first job does not start at operation 0")
    J.ok(st_[:, 1:] == en[:, :-1] + 1, "ops_not_contiguous", "start of job j+1 is not end of job j + 1")
    nops = en - st_ + 1
    J.ok((nops >= lo_ops) & (nops <= hi_ops), "ops_per_job_range", f"operations per job outside [{lo_ops},{hi_ops}]")
    total = en[:, -1] + 1
    want_pad = torch.arange(nmax)[None, :] >= total[:, None]
    J.ok(pad == want_pad, "pad_mask", "pad_mask does not mark exactly the operations beyond the last job's end")
    elig = (pt > 0).sum(1)  # [B, nmax]
    real = ~pad
    return pt, pad, elig, real


class FJSP(G):
    name, gen_path, env_name, spec = "fjsp", "rl4co.envs.scheduling.fjsp.generator:FJSPGenerator", "FJSPEnv", "fjsp"
    env_kw_keys = ("mask_no_ops",)

    def params(self, tier):
        @st.composite
        def s(draw):
            p = {"num_jobs": draw(st.integers(1, 10)), "num_machines": draw(st.integers(1, 6))}
            lo = draw(st.integers(1, 5))
            p["min_ops_per_job"], p["max_ops_per_job"] = lo, draw(st.integers(lo, 6))
            if draw(st.booleans()):
                lo = draw(st.integers(1, 10))
                p["min_processing_time"], p["max_processing_time"] = lo, draw(st.one_of(st.integers(lo, lo + 3), st.integers(lo, 99)))
            if draw(st.booleans()):
                lo = draw(st.integers(1, p["num_machines"]))
                p["min_eligible_ma_per_op"], p["max_eligible_ma_per_op"] = lo, draw(st.integers(lo, p["num_machines"]))
            _opt(draw, p, "same_mean_per_op", st.booleans(), 2)
            _opt(draw, p, "mask_no_ops", st.booleans(), 2)
            return p
        return s()

    def kwargs(self, p, spies, B):
        return {k: v for k, v in p.items() if k not in self.env_kw_keys}

    def check(self, J, td, p, kw, B, gen, spies):
        J.keys(td, ["start_op_per_job", "end_op_per_job", "proc_times", "pad_mask"])
        mas = p["num_machines"]
        pt, pad, elig, real = check_jobshop(J, td, B, p["num_jobs"], mas, p["min_ops_per_job"], p["max_ops_per_job"], False)
        lo, hi = p.get("min_eligible_ma_per_op", 1), p.get("max_eligible_ma_per_op") or mas
        J.ok(elig[real] >= 1, "op_without_machine", "a real operation is eligible on no machine")
        J.ok((elig[real] >= lo) & (elig[real] <= hi), "eligible_range", f"eligible machines per op outside [{lo},{hi}]")
        J.ok(elig[pad] == 0, "padded_op_eligible", "a padded operation has an eligible machine")
        v = pt[pt > 0]
        J.within(v, p.get("min_processing_time", 1), p.get("max_processing_time", 20), "proc_times", tol=0, what="proc_time_range")
        J.ok(is_int(pt), "proc_time_not_integer", "processing times are not integers")

    def bound(self, p, row, gen):
        return 2 * sum(1 for x in row["pad_mask"] if not x) + 1

    def crash_sig(self, p):
        if p.get("same_mean_per_op", True) and p.get("min_processing_time", 1) == p.get("max_processing_time", 20):
            return "fjsp|same_mean_min_eq_max_pt"
        return None


class JSSP(G):
    name, gen_path, env_name, spec = "jssp", "rl4co.envs.scheduling.jssp.generator:JSSPGenerator", "JSSPEnv", "jssp"
    env_kw_keys = ("mask_no_ops",)

    def params(self, tier):
        @st.composite
        def s(draw):
            p = {"num_jobs": draw(st.integers(1, 10)), "num_machines": draw(st.integers(1, 8))}
            if draw(st.booleans()):
                p["one2one_ma_map"] = False
                lo = draw(st.integers(1, 5))
                p["min_ops_per_job"], p["max_ops_per_job"] = lo, draw(st.integers(lo, 6))
            elif draw(st.booleans()):
                p["min_ops_per_job"] = p["max_ops_per_job"] = p["num_machines"]
            if draw(st.booleans()):
                lo = draw(st.integers(1, 10))
                p["min_processing_time"], p["max_processing_time"] = lo, draw(st.one_of(st.integers(lo, lo + 3), st.integers(lo, 99)))
            _opt(draw, p, "mask_no_ops", st.booleans(), 2)
            return p
        return s()

    def kwargs(self, p, spies, B):
        return {k: v for k, v in p.items() if k not in self.env_kw_keys}

    def check(self, J, td, p, kw, B, gen, spies):
        J.keys(td, ["start_op_per_job", "end_op_per_job", "proc_times", "pad_mask"])
        mas, jobs = p["num_machines"], p["num_jobs"]
        lo, hi = p.get("min_ops_per_job") or mas, p.get("max_ops_per_job") or mas
        pt, pad, elig, real = check_jobshop(J, td, B, jobs, mas, lo, hi, True)
        J.ok(elig[real] == 1, "op_machine_count", "a real JSSP operation is not eligible on exactly one machine")
        v = pt[pt > 0]
        J.within(v, p.get("min_processing_time", 1), p.get("max_processing_time", 99), "proc_times", tol=0, what="proc_time_range")
        J.ok(is_int(pt), "proc_time_not_integer", "processing times are not integers")
        if p.get("one2one_ma_map", True):
            # each job visits every machine exactly once
            ma = (pt > 0).long().argmax(1).reshape(B, jobs, mas)
            J.ok(ma.sort(-1).values == torch.arange(mas)[None, None], "one2one_not_permutation",
                 "one2one_ma_map: a job's operations do not use every machine exactly once")

    def bound(self, p, row, gen):
        return 2 * sum(1 for x in row["pad_mask"] if not x) + 1


# --------------------------------------------------------------------------- FFSP / SMTWTP
class FFSP(G):
    name, gen_path, env_name, spec = "ffsp", "rl4co.envs.scheduling.ffsp.generator:FFSPGenerator", "FFSPEnv", "ffsp"

    def params(self, tier):
        @st.composite
        def s(draw):
            p = {}
            _opt(draw, p, "num_stage", st.integers(1, 3), 2)
            _opt(draw, p, "num_machine", st.integers(1, 4), 2)
            _opt(draw, p, "num_job", st.integers(1, 10), 1)
            if draw(st.booleans()):
                lo = draw(st.integers(1, 6))
                p["min_time"], p["max_time"] = lo, draw(st.integers(lo + 1, lo + 12))
            return p
        return s()

    def kwargs(self, p, spies, B):
        return dict(p)

    def dims(self, p):
        return p.get("num_job", 4), p.get("num_stage", 2), p.get("num_machine", 3)

    def check(self, J, td, p, kw, B, gen, spies):
        jn, sn, mn = self.dims(p)
        J.keys(td, ["run_time"])
        rt = J.shape(td, "run_time", (B, jn, sn * mn), "int")
        J.within(rt, p.get("min_time", 2), p.get("max_time", 10), "run_time", tol=0, what="run_time_range")

    def bound(self, p, row, gen):
        jn, sn, mn = self.dims(p)
        return SPECS["ffsp"].bound({"jobs": jn, "stages": sn, "mas": mn}, row)


class SMTWTP(G):
    name, gen_path, env_name, spec = "smtwtp", "rl4co.envs.scheduling.smtwtp.generator:SMTWTPGenerator", "SMTWTPEnv", "smtwtp"

    def params(self, tier):
        @st.composite
        def s(draw):
            p = {"num_job": draw(sizes(tier))}
            if draw(st.booleans()):
                lo = draw(q(0, 4))
                p["min_time_span"], p["max_time_span"] = lo, lo + draw(q(0.125, 30))
            if draw(st.booleans()):
                lo = draw(q(0, 2))
                p["min_job_weight"], p["max_job_weight"] = lo, lo + draw(q(0.125, 4))
            if draw(st.booleans()):
                lo = draw(q(0, 2))
                p["min_process_time"], p["max_process_time"] = lo, lo + draw(q(0.125, 4))
            return p
        return s()

    def kwargs(self, p, spies, B):
        return dict(p)

    def check(self, J, td, p, kw, B, gen, spies):
        n = p["num_job"]
        J.keys(td, ["job_due_time", "job_weight", "job_process_time"])
        rng = {"job_due_time": (p.get("min_time_span", 0), p.get("max_time_span", n / 2)),
               "job_weight": (p.get("min_job_weight", 0), p.get("max_job_weight", 1)),
               "job_process_time": (p.get("min_process_time", 0), p.get("max_process_time", 1))}
        for k, (lo, hi) in rng.items():
            v = J.shape(td, k, (B, n + 1), "float")
            J.ok(v[:, 0] == 0, f"dummy_job|{k}", f"dummy job 0 has non-zero {k}")
            J.within(v[:, 1:], lo, hi, k, what="range")

    def bound(self, p, row, gen):
        return p["num_job"]


# --------------------------------------------------------------------------- FLP / MCP
class FLP(G):
    name, gen_path, env_name, spec, with_depot = "flp", "rl4co.envs.graph.flp.generator:FLPGenerator", "FLPEnv", "flp", False

    def params(self, tier):
        @st.composite
        def s(draw):
            p = draw(coord_params(tier, with_depot=False))
            p["to_choose"] = draw(st.one_of(st.integers(1, p["num_loc"]), st.integers(1, min(10, p["num_loc"]))))
            return p
        return s()

    def kwargs(self, p, spies, B):
        kw = coord_kwargs(p, spies, with_depot=False)
        kw["to_choose"] = p["to_choose"]
        return kw

    def exclude(self, p, B):
        return excl_points(p, False)

    def check(self, J, td, p, kw, B, gen, spies):
        n = p["num_loc"]
        J.keys(td, ["locs", "orig_distances", "distances", "chosen", "to_choose"])
        locs, _ = check_coords(J, td, p, B, n, spies, depot=False)
        od = J.shape(td, "orig_distances", (B, n, n), "float")
        di = J.shape(td, "distances", (B, n), "float")
        ch = J.shape(td, "chosen", (B, n), "bool")
        tc = J.shape(td, "to_choose", (B,), "int")
        ref = (locs.double()[:, :, None, :] - locs.double()[:, None, :, :]).norm(p=2, dim=-1)
        scale = max(1.0, float(locs.abs().max())) if torch.isfinite(locs).all() else 1.0
        J.ok((od.double() - ref).abs() <= 1e-5 * scale, "orig_distances", "orig_distances is not the pairwise distance matrix of locs")
        J.ok(~ch, "chosen_initial", "an instance starts with chosen facilities")
        J.ok(tc == p["to_choose"], "to_choose_value", "to_choose != configured quota")
        J.ok((di - SQ2 * (p["max_loc"] - p["min_loc"])).abs() <= 1e-5 * scale, "distances_initial",
             "initial distances are not sqrt(2)*(max_loc-min_loc)")

    def bound(self, p, row, gen):
        return p["to_choose"]


class MCP(G):
    name, gen_path, env_name, spec = "mcp", "rl4co.envs.graph.mcp.generator:MCPGenerator", "MCPEnv", "mcp"

    def params(self, tier):
        @st.composite
        def s(draw):
            p = {"num_items": draw(st.one_of(st.integers(1, 12), st.integers(1, 60), st.sampled_from([200]))),
                 "num_sets": draw(st.one_of(st.integers(1, 8), st.integers(1, 40)))}
            lo = draw(st.integers(1, 8))
            p["min_size"], p["max_size"] = lo, draw(st.integers(lo, lo + 10))
            if draw(st.booleans()):
                lo = draw(st.integers(1, 5))
                p["min_weight"], p["max_weight"] = lo, draw(st.integers(lo, lo + 10))
            p["n_sets_to_choose"] = draw(st.integers(1, p["num_sets"]))
            if draw(st.integers(0, 4)) == 0:
                p["size_distribution"] = "uniform"
            elif draw(st.integers(0, 2)) == 0:
                # size_distribution (Uniform, callable, constant) / explicit size_sampler; raw samples on [min_size, max_size + 1]
                p["size"] = draw(scalar_dist(["uniform_cls", "callable", "callable_sub", "const", "spy", "sampler_sub"]))
            if draw(st.integers(0, 2)) == 0:
                # weight_distribution ("uniform", Uniform, callable, constant) / explicit weight_sampler on [min_weight, max_weight + 1]
                p["weight"] = draw(scalar_dist(["uniform_str", "uniform_cls", "callable", "callable_sub", "const", "spy", "sampler_sub"]))
            return p
        return s()

    def kwargs(self, p, spies, B):
        kw = {k: v for k, v in p.items() if k not in ("size", "weight")}
        if "size" in p:
            kw.update(scalar_kwargs(p["size"], "size", p["min_size"], p["max_size"] + 1, spies))
        if "weight" in p:
            kw.update(scalar_kwargs(p["weight"], "weight", p.get("min_weight", 1), p.get("max_weight", 10) + 1, spies))
        return kw

    def check(self, J, td, p, kw, B, gen, spies):
        J.keys(td, ["membership", "weights", "n_sets_to_choose"])
        ni, ns = p["num_items"], p["num_sets"]
        mem = td["membership"]
        J.ok(mem.dim() == 3 and tuple(mem.shape[:2]) == (B, ns) and p["min_size"] <= mem.shape[2] <= p["max_size"],
             "shape|membership", f"membership shape {tuple(mem.shape)}; expected [B={B}, num_sets={ns}, <= max_size={p['max_size']}]")
        w = J.shape(td, "weights", (B, ni), "float")
        k = J.shape(td, "n_sets_to_choose", (B, 1))
        J.ok(k == p["n_sets_to_choose"], "quota_value", "n_sets_to_choose != configured")
        J.ok(is_int(mem) & (mem >= 0) & (mem <= ni), "membership_range", f"membership entries outside 0..{ni}")
        srt = mem.sort(-1).values
        rep = (srt[..., 1:] == srt[..., :-1]) & (srt[..., 1:] > 0)
        J.ok(~rep, "membership_repeat", "an item is repeated inside a set", (lambda: {"first": first_bad(~rep)}))
        cnt = (mem > 0).sum(-1)
        J.ok((cnt >= 1) & (cnt <= p["max_size"]), "set_size_range", "a set is empty or larger than max_size")
        # items of a set are packed first: no zero before a non-zero entry is NOT documented -> not asserted
        J.ok(is_int(w), "weights_not_integer", "item weights are not integers")
        J.within(w, p.get("min_weight", 1), p.get("max_weight", 10), "weights", tol=0, what="weight_range")
        # whatever the sampler: weight = clamp(floor(sample), min_weight, max_weight), set size = clamp(floor(sample), min_size,
        # max_size) (docstring: minimum / maximum value for the item weights, minimum / maximum size for the sets)
        if "weight" in p:
            d = p["weight"]
            J.ctx.event(f"mcp_weight_dist:{d['kind']}")
            wl, wh = p.get("min_weight", 1), p.get("max_weight", 10)
            r = scalar_range(d, wl, wh + 1)
            clampi = lambda x, a, b: min(max(math.floor(x + 1e-9), a), b)
            J.within(w, clampi(r[0], wl, wh), clampi(r[1], wl, wh), f"weights|{d['kind']}", tol=0, what="weight_range")
            if d["kind"] == "spy":
                sp = spies.get("weight")
                if J.ok(sp is not None and len(sp.out) >= 1, "weight_sampler_ignored", "explicit weight_sampler object was never sampled"):
                    want = sp.out[-1].floor().clamp(wl, wh)
                    J.ok(want.shape == w.shape and torch.equal(want, w), "weight_sampler_output",
                         "item weights are not clamp(floor(sample)) of what the explicit weight_sampler returned")
        if "size" in p:
            d = p["size"]
            J.ctx.event(f"mcp_size_dist:{d['kind']}")
            sl_, sh_ = p["min_size"], p["max_size"]
            r = scalar_range(d, sl_, sh_ + 1)
            clampi = lambda x, a, b: min(max(math.floor(x + 1e-9), a), b)
            top = clampi(r[1], sl_, sh_)
            J.ok(mem.shape[2] <= top and bool((cnt <= top).all()), f"set_size_range|{d['kind']}",
                 f"membership width {mem.shape[2]} / a set holds more items than the largest size {top} the size distribution can emit")
            if d["kind"] == "spy":
                sp = spies.get("size")
                if J.ok(sp is not None and len(sp.out) >= 1, "size_sampler_ignored", "explicit size_sampler object was never sampled"):
                    sz = sp.out[-1].floor().long().clamp(sl_, sh_)
                    J.ok(sz.shape == cnt.shape and mem.shape[2] == int(sz.max()) and bool((cnt <= sz).all()), "size_sampler_output",
                         "set sizes / membership width do not follow clamp(floor(sample)) of the explicit size_sampler")

    def bound(self, p, row, gen):
        return p["n_sets_to_choose"]


# --------------------------------------------------------------------------- DPP / MDPP (synthetic PDN data, vf/eda.py)
class DPP(G):
    """Decap placement: grid locations (i/m, j/m), one probing port, keep-out cells; the documented mask "eliminates the
    keepout regions and the probe location".  The chip size comes from the data file (vf.eda writes 4x4 ... 10x10)."""
    name, gen_path, env_name, spec = "dpp", "rl4co.envs.eda.dpp.generator:DPPGenerator", "DPPEnv", "dpp"
    multi = False

    def params(self, tier):
        multi = self.multi

        @st.composite
        def s(draw):
            size = draw(st.sampled_from([4, 5, 6, 8] if tier == "quick" else [4, 5, 6, 8, 10]))
            cells = size * size
            p = {"size": size, "max_decaps": draw(st.integers(1, 6))}
            pmax = 0
            if multi:
                lo = draw(st.integers(1, 3))
                p["num_probes_min"], p["num_probes_max"] = lo, draw(st.integers(lo + 1, lo + 3))
                pmax = p["num_probes_max"]
                _opt(draw, p, "reward_type", st.sampled_from(["minmax", "meansum"]), 2)
            # precondition of a solvable instance: max_decaps free cells are left whatever is drawn
            room = cells - p["max_decaps"] - pmax - 2
            kmin = draw(st.integers(0, min(3, room - 1)))
            p["num_keepout_min"], p["num_keepout_max"] = kmin, draw(st.integers(kmin + 1, max(kmin + 1, room)))
            return p
        return s()

    def kwargs(self, p, spies, B):
        from ..eda import data_dir
        kw = {k: v for k, v in p.items() if k not in ("size", "reward_type")}
        kw.update(data_dir=data_dir(), chip_file=f"{p['size']}x{p['size']}_pkg_chip.npy")
        return kw

    env_kw_keys = ()

    def nondefault(self, p, kw):
        return [k for k in super().nondefault(p, kw) if k != "data_dir"]

    def check(self, J, td, p, kw, B, gen, spies):
        m = p["size"]
        N = m * m
        J.keys(td, ["locs", "probe", "action_mask"])
        J.ok(gen.size == m, "chip_size", f"generator size {gen.size} != size of the chip file {m}")
        locs = J.shape(td, "locs", (B, N, 2), "float")
        g = torch.stack(torch.meshgrid(torch.arange(m), torch.arange(m), indexing="ij"), -1).reshape(-1, 2).float() / m
        J.ok((locs - g[None]).abs() <= 1e-6, "grid", "locs is not the row-major grid (i/size, j/size)")
        mask = J.shape(td, "action_mask", (B, N), "bool")
        if self.multi:
            probe = J.shape(td, "probe", (B, N), "bool")
            npb = probe.sum(-1)
            J.within(npb, p["num_probes_min"], p["num_probes_max"], "probe", tol=0, what="probe_count")
            is_probe = probe
        else:
            probe = J.shape(td, "probe", (B, 1), "int")
            J.within(probe, 0, N - 1, "probe", tol=0, what="probe_range")
            is_probe = torch.zeros(B, N, dtype=torch.bool).scatter(1, probe.clamp(0, N - 1), True)
        J.ok(~(mask & is_probe), "probe_not_masked", "a probing port is offered as a decap location")
        keep = (~mask & ~is_probe).sum(-1)  # masked cells that are not probing ports = keep-out cells
        J.ok(keep <= p["num_keepout_max"], "keepout_count", f"more than num_keepout_max={p['num_keepout_max']} keep-out cells: "
                                                            f"{int(keep.max())}")
        # a keep-out draw may coincide with a probing port, so at least num_keepout_min - #ports cells remain visible
        nports = is_probe.sum(-1)
        J.ok(keep >= p["num_keepout_min"] - nports, "keepout_count_min", "fewer keep-out cells than num_keepout_min allows")
        J.ok(mask.sum(-1) >= p["max_decaps"], "not_enough_free_cells", "fewer free cells than max_decaps")

    def bound(self, p, row, gen):
        return p["max_decaps"]


class MDPP(DPP):
    name, gen_path, env_name, spec = "mdpp", "rl4co.envs.eda.mdpp.generator:MDPPGenerator", "MDPPEnv", "mdpp"
    multi = True
    env_kw_keys = ("reward_type",)


GENS = {g.name: g for g in [TSP(), ATSP(), CVRP(), CVRPTW(), OP(), PCTSP(), PDP(), MTSP(), SVRP(), MDCPDP(), MTVRP(), FJSP(),
                            JSSP(), FFSP(), SMTWTP(), FLP(), MCP(), DPP(), MDPP()]}


# =========================================================================== execution
def build(g, case, ctx, B, spies):
    p = case["p"]
    kw = g.kwargs(p, spies, B)
    ekw = g.env_kwargs(p)
    crash = getattr(g, "crash_sig", lambda p: None)(p)
    pre = crash or f"crash|construct|{g.name}"
    if case.get("route", "direct") == "direct":
        gen = repo_call(ctx, pre, g.gen_cls(), **kw)
        env = repo_call(ctx, pre, g.env_cls_for(p), generator=gen, **ekw)
    else:
        env = repo_call(ctx, pre, g.env_cls_for(p), generator_params=kw, **ekw)
        gen = env.generator
    return kw, gen, env


def events(g, ctx, p, kw):
    nd = g.nondefault(p, kw)
    ctx.event(f"gen:{g.name}")
    for k in nd:
        ctx.event(f"{g.name}:{k}")
    for role in ("loc", "depot", "dist"):
        if role in p and p[role]["kind"] not in ("default", "none"):
            ctx.event(f"{role}_dist:{p[role]['kind']}")
    if len(nd) >= 2:
        ctx.nontriv()
    return nd


def execute(case, ctx):
    g = GENS[case["gen"]]
    p, B, seed = case["p"], case["B"], case["seed"]
    why = g.exclude(p, B)
    if why:
        ctx.exclude(why)
        return
    spies = {}
    kw, gen, env = build(g, case, ctx, B, spies)
    nd = events(g, ctx, p, kw)
    seed_all(seed)
    crash = getattr(g, "crash_sig", lambda p: None)(p)
    bs = B if seed % 2 else [B]  # Generator.__call__ accepts an int or a list
    td = repo_call(ctx, crash or f"crash|instance|{g.name}", gen, bs)
    J = Judge(ctx, g.name, case)
    J.ok(tuple(td.batch_size) == (B,), "batch_size", f"TensorDict batch_size {tuple(td.batch_size)} != ({B},)")
    g.check(J, td, p, kw, B, gen, spies)
    ctx.sample({"gen": g.name, "p": p, "B": B, "nondefault": nd})
    again(g, case, ctx, gen, td, kw, spies, crash)
    solvable(g, case, ctx, env, td, gen)


def td_equal(a, b):
    """first key in which two generated TensorDicts differ (None = identical keys, shapes, dtypes and values)"""
    if set(a.keys()) != set(b.keys()):
        return "keys"
    for k in sorted(a.keys()):
        x, y = a[k], b[k]
        if x.shape != y.shape or x.dtype != y.dtype:
            return k
        same = (x == y) | ((x != x) & (y != y)) if x.dtype.is_floating_point else (x == y)
        if not bool(same.all()):
            return k
    return None


def name_is_batch_bound(g, p):
    return g.name == "op" and "max_length_list" in p


def again(g, case, ctx, gen, td1, kw, spies, crash):
    """One generator object called several times in a row (every dataset / every reset without data does that): the
    second batch - possibly of another size - must satisfy the same predicates as the first, must not touch the first
    batch, must be a fresh draw, and what a call returns must depend on the configuration and the RNG state only: a
    third call under the first call's seed reproduces the first batch."""
    p, B, seed = case["p"], case["B"], case["seed"]
    B2 = case.get("B2") or B
    if name_is_batch_bound(g, p):
        B2 = B  # the configuration itself holds one value per row (OP max_length tensor): other sizes are outside its domain
    name = g.name
    keep = td1.clone()
    for sp in spies.values():
        sp.out.clear()
    seed_all(seed + 7)
    td2 = repo_call(ctx, crash or f"crash|instance|{name}", gen, [B2])
    J = Judge(ctx, name, case)
    J.note = "second call of the same generator object"
    J.ok(tuple(td2.batch_size) == (B2,), "batch_size", f"TensorDict batch_size {tuple(td2.batch_size)} != ({B2},) in the second call")
    g.check(J, td2, p, kw, B2, gen, spies)
    ctx.event("second_call:" + ("same_batch_size" if B2 == B else "other_batch_size"))
    diff = td_equal(keep, td1)
    ctx.check(diff is None, f"{name}|second_call|first_batch_modified",
              f"{name}: the batch returned by the first call changed in {diff!r} when the generator was called again")
    # fresh draw: some float key with >= 4 distinct values in the first batch must not come back identical
    if B2 == B:
        # (a key whose rows all coincide - grid coordinates, constants - is configuration, not a draw; so is OP's
        #  max_length when the configuration hands over one value per row)
        fixed = ("max_length",) if name_is_batch_bound(g, p) else ()
        rich = [k for k in td1.keys() if td1[k].dtype.is_floating_point and td1[k].unique().numel() >= 4 and k not in fixed
                and B >= 2 and not bool((td1[k] == td1[k][:1]).all())
                and k in td2.keys() and td2[k].shape == td1[k].shape]
        if rich:
            ctx.check(any(not torch.equal(td1[k], td2[k]) for k in rich), f"{name}|second_call|repeats_first_batch",
                      f"{name}: the second call (other seed) returned the first batch again in all of {rich}")
            ctx.event("second_call:fresh_draw_checked")
    for sp in spies.values():
        sp.out.clear()
    seed_all(seed)
    bs = B if seed % 2 else [B]
    td3 = repo_call(ctx, crash or f"crash|instance|{name}", gen, bs)
    diff = td_equal(td1, td3)
    ctx.check(diff is None, f"{name}|second_call|not_reproducible",
              f"{name}: a third call under the seed of the first call does not reproduce the first batch (key {diff!r}): "
              "the output depends on the calls made before")
    for sp in spies.values():  # leave the spies as after a single call (solvable / later readers)
        sp.out[:] = sp.out[:1]


def solvable(g, case, ctx, env, td, gen):
    p, B = case["p"], case["B"]
    name = g.name
    rows = case["rows"]
    spec_name = g.spec or name
    # rows to play: prefix such that rows*bound stays small
    row0 = py_instance(spec_name, td[0])
    b0 = g.bound(p, row0, gen)
    k = max(1, min(B, 2500 // max(1, b0)))
    if name in ("flp", "mcp"):
        k = B  # one quota per batch; cheap
    sub = td[:k].clone()
    bound = max(g.bound(p, py_instance(spec_name, sub[b]), gen) for b in range(k)) if name in ("mtsp", "fjsp", "jssp", "ffsp") else b0
    modes = [rows[b % len(rows)]["mode"] for b in range(k)]
    streams = [rows[b % len(rows)]["stream"] for b in range(k)]
    pre = f"{name}|solvable"
    if name == "svrp" and len(p.get("tech_costs", [1, 2, 3])) == 1:
        pre = "svrp|single_tech"
    if name == "mtsp" and p["num_loc"] == 1:
        pre = "mtsp|single_loc"
    torch.manual_seed(case["seed"] + 1)
    if name == "mdcpdp":
        if p.get("num_depot", 5) > 1 and td["capacity"].shape[-1] != p.get("num_depot", 5):
            mdcpdp_pairing(ctx, env, sub, p, GENS["mdcpdp"].neven(p))
            # judge solvability on the documented reading of the capacity (one entry per depot)
            sub = sub.clone()
            sub["capacity"] = sub["capacity"].expand(k, p.get("num_depot", 5)).clone()
    if name == "ffsp":
        env = GENS["ffsp"].env_cls()(generator=gen)  # fresh env object per episode
    ep = repo_call(ctx, f"{pre}|crash", run_episode, env, sub, modes, streams, bound + 3)
    det = {"T": ep.T, "bound": bound, "rows": k}
    if ep.dead_end is not None:
        t, b = ep.dead_end
        kind = "finished_row" if ep.finish_step(b) is not None else "unfinished_row"
        ctx.violation(f"{pre}|dead_end|{kind}", f"{name}: row {b} is offered no action at step {t}", det)
        return
    if ep.cap_hit:
        ctx.violation(f"{pre}|not_done_within_bound", f"{name}: episode from a generated instance not done after {ep.T} steps "
                                                     f"(bound {bound})", det)
        return
    for b in range(k):
        f = ep.finish_step(b)
        rb = g.bound(p, py_instance(spec_name, td[b]), gen) if name in ("mtsp", "fjsp", "jssp", "ffsp") else bound
        if f is None or f > rb:
            ctx.violation(f"{pre}|row_step_bound", f"{name}: row {b} finished after {f} steps, bound {rb}", det)
            return
    ctx.event("episode_done")


def mdcpdp_pairing(ctx, env, sub, p, n):
    """With the generated capacity the env must still pair pickup j with delivery j + n/2 (documented layout:
    num_depot depots, n/2 pickups, n/2 deliveries)."""
    nd = p.get("num_depot", 5)
    td = env.reset(sub.clone())
    k = td.batch_size[0]
    td.set("action", torch.zeros(k, dtype=torch.long))
    td = env.step(td)["next"]
    pick = nd  # first pickup node in the documented layout
    if not bool(td["action_mask"][:, pick].all()):
        ctx.violation("mdcpdp|capacity_shape|pickup_masked", "first documented pickup node is not offered after leaving the depot",
                      abort_known=False)
        return
    before = td["to_deliver"].clone()
    td = td.clone()
    td.set("action", torch.full((k,), pick, dtype=torch.long))
    td = env.step(td)["next"]
    new = (td["to_deliver"] & ~before).long()
    want = pick + n // 2
    good = bool((new.sum(-1) == 1).all()) and bool((new.argmax(-1) == want).all())
    if not good:
        ctx.violation("mdcpdp|capacity_shape|pairing_offset",
                      f"pickup node {pick} unlocks delivery node {new.argmax(-1)[0].item()} instead of {want} "
                      f"(env derives num_depot={td['capacity'].shape[-1]} from capacity, generator num_depot={nd})")


# =========================================================================== bulk (rare events)
def bulk_cases(tier):
    @st.composite
    def s(draw):
        name = draw(st.sampled_from(["cvrp", "cvrptw", "cvrptw", "mtvrp", "mtvrp"]))
        g = GENS[name]
        p = draw(g.params(tier))
        p["num_loc"] = draw(st.integers(1, 10))
        if "vehicle_capacity" in p and name != "mtvrp" and \
                p["vehicle_capacity"] < p.get("max_demand", 10) / (p.get("capacity") or default_capacity(p["num_loc"])):
            del p["vehicle_capacity"]  # precondition re-evaluated for the new size (other capacity table entry)
        for role in ("loc", "depot"):
            if role in p and p[role]["kind"] in ("spy", "gaussian_mixture", "mix_multi_distributions", "mix_distribution",
                                                 "normal", "gaussian", "exponential", "poisson"):
                p[role] = {"kind": "default" if role == "loc" else "none"}
        return {"gen": name, "p": p, "B": 100000 if tier == "quick" else 200000, "seed": draw(st.integers(0, 2 ** 31 - 1))}
    return s()


def execute_bulk(case, ctx):
    g = GENS[case["gen"]]
    p, B = case["p"], case["B"]
    if g.exclude(p, B):
        ctx.exclude(g.exclude(p, B))
        return
    if case["gen"] == "cvrptw" and p.get("max_time", 480) < tw_precondition(p):
        ctx.exclude("cvrptw_precondition")
        return
    spies = {}
    kw = g.kwargs(p, spies, B)
    gen = repo_call(ctx, f"crash|construct|{g.name}", g.gen_cls(), **kw)
    nd = g.nondefault(p, kw)
    ctx.event(f"gen:{g.name}")
    ctx.event("instances", B)
    if len(nd) >= 2:
        ctx.nontriv()
    seed_all(case["seed"])
    td = repo_call(ctx, f"crash|instance|{g.name}", gen, [B])
    g.check(Judge(ctx, g.name, case), td, p, kw, B, gen, spies)
    ctx.sample({"gen": g.name, "p": p, "B": B})


def fam(names, weights=None):
    def strat(tier):
        return st.one_of(*[_wrap(n, GENS[n].params(tier)) for n in names for _ in range((weights or {}).get(n, 1))])
    return strat


def preimport():
    from ..eda import data_dir
    data_dir()


SUBS = [
    Sub("coords", execute, strategy=fam(["tsp", "pdp", "mtsp", "flp", "svrp"]), budget={"quick": 1856, "thorough": 12000}, shards=16),
    Sub("demand_tw", execute, strategy=fam(["cvrp", "cvrptw"], {"cvrptw": 2}), budget={"quick": 1568, "thorough": 11000}, shards=16),
    Sub("prize", execute, strategy=fam(["op", "pctsp"]), budget={"quick": 1136, "thorough": 8000}, shards=16),
    Sub("matrix_multidepot", execute, strategy=fam(["atsp", "mdcpdp"]), budget={"quick": 1024, "thorough": 7000}, shards=16),
    Sub("mtvrp", execute, strategy=fam(["mtvrp"]), budget={"quick": 1568, "thorough": 10000}, shards=16),
    Sub("scheduling", execute, strategy=fam(["fjsp", "jssp", "ffsp", "smtwtp"]), budget={"quick": 1264, "thorough": 8000}, shards=16),
    Sub("graph", execute, strategy=fam(["mcp", "flp"], {"mcp": 2}), budget={"quick": 784, "thorough": 5000}, shards=16),
    Sub("eda", execute, strategy=fam(["dpp", "mdpp"]), budget={"quick": 480, "thorough": 3000}, shards=16),
    Sub("bulk", execute_bulk, strategy=bulk_cases, budget={"quick": 144, "thorough": 480}, shards=16, weight=3.0),
    Sub("samplers", execute_samplers, strategy=sampler_cases, budget={"quick": 6000, "thorough": 60000}, shards=16),
]
