"""Environment specs: configuration strategies, instance sources (generator-drawn, lattice
hand-built), env construction, step bounds and instance -> python conversion (DESIGN §2.1)."""
import functools
import json
import math

import hypothesis.strategies as st
import torch
from tensordict import TensorDict

from .episode import MODES

F32 = torch.float32


def t32(x):
    return torch.tensor(x, dtype=F32)


def to_py(td_row):
    """TensorDict row -> dict of python lists / scalars (float64)."""
    out = {}
    for k in td_row.keys():
        v = td_row[k]
        if isinstance(v, torch.Tensor):
            if v.dtype.is_floating_point:
                v = v.double()
            out[k] = v.tolist() if v.dim() > 0 else v.item()
    return out


_ENV_CACHE = {}


def ctor(cfg):
    """Extra keyword arguments of the env constructor (options of RL4COEnvBase such as allow_done_after_reset,
    run_type_checks, batch_size) carried by a config under the optional key "_ctor"; every Spec.build forwards them."""
    return dict(cfg.get("_ctor") or {})


def cached_env(name, cfg, builder):
    key = name + json.dumps(cfg, sort_keys=True)
    if key not in _ENV_CACHE:
        if len(_ENV_CACHE) > 64:
            _ENV_CACHE.clear()
        _ENV_CACHE[key] = builder(cfg)
    return _ENV_CACHE[key]


# lattice coordinate helpers -------------------------------------------------
def coords(n, denom=16):
    pt = st.tuples(st.integers(0, denom), st.integers(0, denom)).map(lambda p: [p[0] / denom, p[1] / denom])
    return st.lists(pt, min_size=n, max_size=n)


def eighths(n, lo=1, hi=8, exact=True):
    if exact:
        return st.lists(st.integers(lo, hi).map(lambda k: k / 8.0), min_size=n, max_size=n)
    # "flt" source: arbitrary float32 quantities in the same range (documented format, off-lattice)
    return st.lists(st.floats(max(lo / 8.0, 0.01), hi / 8.0, width=32), min_size=n, max_size=n)


class Spec:
    name = None
    sources = ("gen", "lat")
    has_depot_action = True  # action 0 is a depot / wait / dummy
    routing = True

    def sizes(self, tier):
        # mostly small (cheap, shrinkable), occasionally a size from the generators' tables / beyond
        big = st.sampled_from([15, 20, 33, 50])
        # "huge": beyond int8 / uint8 index ranges and beyond every generator table entry used by the tests
        # (dtype narrowing, table look-ups and O(n^2) buffers only show there); rare because an episode costs seconds
        huge = st.sampled_from([130, 260])
        small = st.integers(2, 9)
        if tier == "quick":
            return st.one_of(*([small] * 40 + [big] * 8 + [huge] * 2))
        return st.one_of(*([st.integers(2, 12)] * 8 + [st.integers(2, 24)] * 4 + [big] * 4 + [st.sampled_from([75, 100])] * 3 + [huge]))

    def cfg(self, tier):
        return self.sizes(tier).map(lambda n: {"n": n})

    def build(self, cfg):
        raise NotImplementedError

    def env(self, cfg):
        return cached_env(self.name, cfg, self.build)

    def gen(self, cfg, B, seed):
        env = self.env(cfg)
        torch.manual_seed(seed)
        return env.generator(batch_size=[B])

    def lattice(self, cfg, B, exact=True):  # strategy of JSON data for B rows
        raise NotImplementedError

    def from_lattice(self, cfg, lat):
        return TensorDict({k: (t32(v) if not isinstance(v, torch.Tensor) else v) for k, v in lat.items()},
                          batch_size=[len(next(iter(lat.values())))])

    def instance(self, case):
        if case["src"] in ("lat", "flt", "tgt"):
            return self.from_lattice(case["cfg"], case["lat"])
        return self.gen(case["cfg"], case["B"], case["seed"])

    def bound(self, cfg, inst_row):
        """Step bound for a mask-confined episode (DESIGN §3 C02)."""
        raise NotImplementedError

    def judge_cfg(self, cfg):
        return cfg

    def slice_of(self, cfg):
        """Short configuration slice string used in violation signatures."""
        return ""


# --------------------------------------------------------------------------- routing specs
class TSP(Spec):
    name = "tsp"
    has_depot_action = False

    def build(self, cfg):
        from rl4co.envs import TSPEnv
        return TSPEnv(generator_params=dict(num_loc=cfg["n"]), **ctor(cfg))

    def lattice(self, cfg, B, exact=True):
        return st.fixed_dictionaries({"locs": st.lists(coords(cfg["n"]), min_size=B, max_size=B)})

    def bound(self, cfg, r):
        return cfg["n"]


class ATSP(Spec):
    name = "atsp"
    has_depot_action = False

    def cfg(self, tier):
        return st.tuples(self.sizes(tier), st.booleans()).map(lambda t: {"n": t[0], "tmat": t[1]})

    def build(self, cfg):
        from rl4co.envs import ATSPEnv
        return ATSPEnv(generator_params=dict(num_loc=cfg["n"], tmat_class=cfg["tmat"]), **ctor(cfg))

    def lattice(self, cfg, B, exact=True):
        n = cfg["n"]
        row = st.lists(st.integers(0, 16).map(lambda k: k / 16.0), min_size=n, max_size=n)
        mat = st.lists(row, min_size=n, max_size=n).map(
            lambda m: [[0.0 if i == j else m[i][j] for j in range(n)] for i in range(n)])
        return st.fixed_dictionaries({"cost_matrix": st.lists(mat, min_size=B, max_size=B)})

    def bound(self, cfg, r):
        return cfg["n"]


class CVRP(Spec):
    name = "cvrp"
    sources = ("gen", "lat", "flt")
    envcls = "CVRPEnv"

    # vehicle_capacity option of the generator (capacity in normalised demand units); below 1 the demands have to fit:
    # generated data gets capacity >= 20 (demands <= 10/20), hand-built demands are multiplied by the option
    VC = [1.0, 1.0, 1.0, 2.0, 1.5, 0.5]

    def cfg(self, tier):
        return st.tuples(self.sizes(tier), st.sampled_from([None, None, 10.0, 15.0, 20.0, 40.0]),
                         st.sampled_from(self.VC)).map(lambda t: {"n": t[0], "capacity": t[1], "vc": t[2]})

    def gparams(self, cfg):
        p = dict(num_loc=cfg["n"], vehicle_capacity=cfg.get("vc", 1.0))
        if cfg.get("capacity"):
            p["capacity"] = cfg["capacity"]
        if cfg.get("vc", 1.0) < 1.0:
            p["capacity"] = max(float(cfg.get("capacity") or 0.0), 20.0)
        return p

    def fit_demand(self, cfg, td):
        """Hand-built demands are drawn in [1/8, 1]; a vehicle smaller than 1 gets them scaled (still dyadic)."""
        vc = cfg.get("vc", 1.0)
        if vc < 1.0:
            td["demand"] = td["demand"] * vc
        return td

    def instance(self, case):
        if case["src"] in ("lat", "flt", "tgt"):
            return self.fit_demand(case["cfg"], self.from_lattice(case["cfg"], case["lat"]))
        return super().instance(case)

    def build(self, cfg):
        import rl4co.envs as E
        return getattr(E, self.envcls)(generator_params=self.gparams(cfg), **ctor(cfg))

    def lattice(self, cfg, B, exact=True):
        n = cfg["n"]
        return st.fixed_dictionaries({
            "locs": st.lists(coords(n), min_size=B, max_size=B),
            "depot": coords(B),
            "demand": st.lists(eighths(n, exact=exact), min_size=B, max_size=B),
        })

    def bound(self, cfg, r):
        return 2 * cfg["n"] + 1

    def judge_cfg(self, cfg):
        return {"vehicle_capacity": cfg.get("vc", 1.0)}


class SDVRP(CVRP):
    name = "sdvrp"
    envcls = "SDVRPEnv"

    def bound(self, cfg, r):
        n = cfg["n"]
        tot = float(sum(r["demand"])) / cfg.get("vc", 1.0)
        return 2 * (n + math.ceil(tot - 1e-9)) + 1


class CVRPTW(CVRP):
    name = "cvrptw"
    envcls = "CVRPTWEnv"

    def cfg(self, tier):
        return st.tuples(self.sizes(tier), st.sampled_from([None, 10.0, 20.0]), st.booleans(),
                         st.sampled_from([480, 480, 600, 450]), st.sampled_from(self.VC)).map(
            lambda t: {"n": t[0], "capacity": t[1], "scale": t[2], "max_time": t[3], "vc": t[4]})

    def gparams(self, cfg):
        p = super().gparams(cfg)
        p.update(scale=cfg["scale"], max_time=cfg["max_time"])
        return p

    def lattice(self, cfg, B, exact=True):
        # integer grid 0..150 in steps of 10 (3-4-5 friendly), integer windows (divided by the closing time in
        # `instance` when the drawn config says scale=True)
        n = cfg["n"]
        mt = cfg["max_time"]
        pt = st.tuples(st.integers(0, 15), st.integers(0, 15)).map(lambda p: [p[0] * 10.0, p[1] * 10.0])

        @st.composite
        def row(draw):
            depot = draw(pt)
            locs = draw(st.lists(pt, min_size=n, max_size=n))
            tws, durs = [[0.0, float(mt)]], [0.0]
            for q in locs:
                d = math.hypot(q[0] - depot[0], q[1] - depot[1])
                dur = float(draw(st.integers(0, 20)))
                lo_min = math.ceil(d)
                hi_max = math.floor(mt - d - dur)
                lo = draw(st.integers(lo_min, max(lo_min, hi_max - 1)))
                hi = draw(st.integers(lo + 1, max(lo + 1, hi_max)))
                tws.append([float(lo), float(hi)])
                durs.append(dur)
            return depot, locs, draw(eighths(n, exact=exact)), tws, durs

        def pack(rows):
            return {"depot": [r[0] for r in rows], "locs": [r[1] for r in rows], "demand": [r[2] for r in rows],
                    "time_windows": [r[3] for r in rows], "durations": [r[4] for r in rows]}
        return st.lists(row(), min_size=B, max_size=B).map(pack)

    sources = ("gen", "lat", "flt", "tgt", "tgt")

    def tight(self, cfg, B):
        """Boundary construction: windows and non-zero service durations built around a reference schedule so
        that window ends are met with (near) equality along it and waiting / late arrivals are frequent."""
        n = cfg["n"]
        pt = st.tuples(st.integers(0, 15), st.integers(0, 15)).map(lambda p: [p[0] * 10.0, p[1] * 10.0])

        @st.composite
        def row(draw):
            depot = draw(pt)
            locs = draw(st.lists(pt, min_size=n, max_size=n))
            order = draw(st.permutations(list(range(n))))
            cuts = draw(st.lists(st.booleans(), min_size=n, max_size=n))
            tws, durs = [None] * n, [None] * n
            t, cur = 0.0, depot
            need = 0.0
            for k, i in enumerate(order):
                if cuts[k]:
                    t, cur = 0.0, depot
                q = locs[i]
                arr = t + math.hypot(q[0] - cur[0], q[1] - cur[1])
                lo = float(max(0, math.floor(arr) + draw(st.integers(-30, 12))))
                start = max(arr, lo)
                # scaled units (cfg scale=True, see `instance`): no exact-equality class - after the division by the closing
                # time an arrival that equals the window end in integer units may round to either side, so the window
                # closes at least one time unit after the reference arrival (equality stays in the unscaled instances)
                hi = float(math.ceil(start) + draw(st.sampled_from([1, 1, 2, 5] if cfg.get("scale") else [0, 0, 1, 2, 5])))
                if hi <= lo:
                    hi = lo + 1.0
                dur = float(draw(st.integers(0, 25)))
                tws[i], durs[i] = [lo, hi], dur
                t, cur = start + dur, q
                need = max(need, hi + dur + math.hypot(q[0] - depot[0], q[1] - depot[1]))
            mt = float(max(cfg["max_time"], math.ceil(need) + 1))
            return depot, locs, draw(eighths(n)), [[0.0, mt]] + tws, [0.0] + durs

        def pack(rows):
            # one depot closing time for the whole batch (the library assumes max_time is shared by a batch)
            mt = max(r[3][0][1] for r in rows)
            tws = [[list(w) for w in r[3][1:]] for r in rows]
            if cfg.get("scale"):
                # solvable by construction in scaled units too: every customer can be reached straight from the depot
                # with a margin of >= 1e-3 * closing time inside its own window and the vehicle is back in time
                for _ in range(8):
                    need = mt
                    for r, tw in zip(rows, tws):
                        for q, w, dur in zip(r[1], tw, r[4][1:]):
                            d0 = math.hypot(q[0] - r[0][0], q[1] - r[0][1])
                            w[1] = float(max(w[1], math.ceil(d0 + 1e-3 * mt)))
                            need = max(need, math.ceil(w[1] + dur + d0) + 1.0)
                    if need == mt:
                        break
                    mt = need
            return {"depot": [r[0] for r in rows], "locs": [r[1] for r in rows], "demand": [r[2] for r in rows],
                    "time_windows": [[[0.0, mt]] + tw for tw in tws], "durations": [r[4] for r in rows]}
        return st.lists(row(), min_size=B, max_size=B).map(pack)

    def instance(self, case):
        if case["src"] in ("lat", "flt", "tgt"):
            td = self.fit_demand(case["cfg"], self.from_lattice(case["cfg"], case["lat"]))
            if case["cfg"].get("scale"):
                # hand-built instance in SCALED units, the format of CVRPTWGenerator(scale=True): coordinates, time windows
                # and service durations divided by the depot's closing time (one per batch), so that everything lies in
                # [0, 1].  Unlike the generator's scaled instances these have non-zero durations and windows met with
                # near equality; no quantity is an exact float any more (no exact-equality class, see judge_cfg).
                mt = td["time_windows"][:, 0, 1].max()
                for k in ("depot", "locs", "time_windows", "durations"):
                    td[k] = td[k] / mt
            return td
        return super().instance(case)

    def judge_cfg(self, cfg):
        # scaled_units: the oracle must not certify "arrival == window end" as exact (vf.oracles.routing.judge_cvrptw)
        return dict(super().judge_cfg(cfg), scaled_units=bool(cfg.get("scale")))

    def slice_of(self, cfg):
        return "scaled" if cfg.get("scale") else "unscaled"


class SVRP(Spec):
    name = "svrp"

    def cfg(self, tier):
        costs = st.lists(st.integers(1, 5), min_size=2, max_size=4).map(sorted)
        return st.tuples(self.sizes(tier), costs).map(lambda t: {"n": t[0], "tech_costs": t[1]})

    def build(self, cfg):
        from rl4co.envs import SVRPEnv
        return SVRPEnv(generator_params=dict(num_loc=cfg["n"], tech_costs=cfg["tech_costs"]), **ctor(cfg))

    def lattice(self, cfg, B, exact=True):
        n, T = cfg["n"], len(cfg["tech_costs"])

        @st.composite
        def row(draw):
            techs = sorted(draw(st.lists(st.integers(1, 10), min_size=T, max_size=T)))
            if T >= 3 and draw(st.integers(0, 2)) == 0:
                # technicians in another order than the generator's ascending one (a hand-built crew; nothing in the
                # env asks for sorted skills): only the most skilled one stays last, so that every customer can still
                # be served by the time the last technician leaves
                techs = list(draw(st.permutations(techs[:-1]))) + techs[-1:]
            skills = draw(st.lists(st.integers(0, max(techs)), min_size=n, max_size=n))
            return draw(coords(1))[0], draw(coords(n)), [[float(t)] for t in techs], [[float(s)] for s in skills]

        def pack(rows):
            return {"depot": [r[0] for r in rows], "locs": [r[1] for r in rows], "techs": [r[2] for r in rows],
                    "skills": [r[3] for r in rows]}
        return st.lists(row(), min_size=B, max_size=B).map(pack)

    def bound(self, cfg, r):
        return cfg["n"] + len(cfg["tech_costs"])


class OP(Spec):
    name = "op"
    sources = ("gen", "lat", "flt")

    def cfg(self, tier):
        return st.tuples(self.sizes(tier), st.sampled_from(["dist", "unif", "const"]),
                         st.sampled_from([None, 1.0, 1.5, 2.0, 3.0])).map(
            lambda t: {"n": t[0], "prize_type": t[1], "max_length": t[2]})

    def build(self, cfg):
        from rl4co.envs import OPEnv
        p = dict(num_loc=cfg["n"], prize_type=cfg["prize_type"])
        if cfg.get("max_length"):
            p["max_length"] = cfg["max_length"]
        return OPEnv(generator_params=p, **ctor(cfg))

    def lattice(self, cfg, B, exact=True):
        n = cfg["n"]
        return st.fixed_dictionaries({
            "locs": st.lists(coords(n, 8), min_size=B, max_size=B),
            "depot": coords(B, 8),
            "prize": st.lists(eighths(n, exact=exact), min_size=B, max_size=B),
            "max_length": st.lists(st.integers(4, 40).map(lambda k: k / 8.0) if exact else st.floats(0.5, 5.0, width=32),
                                   min_size=B, max_size=B),
        })

    def bound(self, cfg, r):
        return cfg["n"] + 2

    def slice_of(self, cfg):
        return cfg.get("prize_type", "")


class PCTSP(Spec):
    name = "pctsp"
    sources = ("gen", "lat", "flt")
    envcls = "PCTSPEnv"

    def build(self, cfg):
        import rl4co.envs as E
        return getattr(E, self.envcls)(generator_params=dict(num_loc=cfg["n"]), **ctor(cfg))

    def lattice(self, cfg, B, exact=True):
        n = cfg["n"]
        pr = st.lists(st.integers(0, 8).map(lambda k: k / 8.0) if exact else st.floats(0.0, 1.0, width=32),
                      min_size=n, max_size=n)
        return st.fixed_dictionaries({
            "locs": st.lists(coords(n), min_size=B, max_size=B),
            "depot": coords(B),
            "penalty": st.lists(eighths(n, 0, 8), min_size=B, max_size=B),
            "deterministic_prize": st.lists(pr, min_size=B, max_size=B),
            "stochastic_prize": st.lists(pr, min_size=B, max_size=B),
        })

    def bound(self, cfg, r):
        return cfg["n"] + 1

    def judge_cfg(self, cfg):
        return {"stochastic": self.name == "spctsp"}


class SPCTSP(PCTSP):
    name = "spctsp"
    envcls = "SPCTSPEnv"


class PDP(Spec):
    name = "pdp"
    has_depot_action = False

    def sizes(self, tier):
        return (st.integers(1, 4) if tier == "quick" else st.integers(1, 10)).map(lambda k: 2 * k)

    def cfg(self, tier):
        return st.tuples(self.sizes(tier), st.booleans()).map(lambda t: {"n": t[0], "force_start": t[1]})

    def build(self, cfg):
        from rl4co.envs import PDPEnv
        return PDPEnv(generator_params=dict(num_loc=cfg["n"]), force_start_at_depot=cfg["force_start"], **ctor(cfg))

    def lattice(self, cfg, B, exact=True):
        return st.fixed_dictionaries({"locs": st.lists(coords(cfg["n"]), min_size=B, max_size=B),
                                      "depot": coords(B)})

    def bound(self, cfg, r):
        return cfg["n"] + (1 if cfg["force_start"] else 0)

    def judge_cfg(self, cfg):
        return {"force_start_at_depot": cfg["force_start"]}

    def slice_of(self, cfg):
        return "force_start" if cfg["force_start"] else "free_start"


class MTSP(Spec):
    name = "mtsp"

    def sizes(self, tier):
        return st.integers(3, 9) if tier == "quick" else st.integers(3, 20)

    def cfg(self, tier):
        @st.composite
        def c(draw):
            n = draw(self.sizes(tier))
            lo = draw(st.integers(1, max(1, n - 1)))
            hi = draw(st.integers(lo, max(lo, min(n - 1, lo + 3))))
            return {"n": n, "min_agents": lo, "max_agents": hi, "cost_type": draw(st.sampled_from(["minmax", "minmax", "sum"]))}
        return c()

    def build(self, cfg):
        from rl4co.envs import MTSPEnv
        return MTSPEnv(generator_params=dict(num_loc=cfg["n"], min_num_agents=cfg["min_agents"],
                                             max_num_agents=cfg["max_agents"]), cost_type=cfg["cost_type"], **ctor(cfg))

    def lattice(self, cfg, B, exact=True):
        return st.fixed_dictionaries({
            "locs": st.lists(coords(cfg["n"]), min_size=B, max_size=B),
            "num_agents": st.lists(st.integers(cfg["min_agents"], cfg["max_agents"]), min_size=B, max_size=B),
        })

    def from_lattice(self, cfg, lat):
        return TensorDict({"locs": t32(lat["locs"]), "num_agents": torch.tensor(lat["num_agents"], dtype=torch.int64)},
                          batch_size=[len(lat["locs"])])

    def bound(self, cfg, r):
        return (cfg["n"] - 1) + (int(r["num_agents"]) - 1)

    def judge_cfg(self, cfg):
        return {"cost_type": cfg["cost_type"]}

    def slice_of(self, cfg):
        return cfg["cost_type"]


MTVRP_VARIANTS = ["cvrp", "ovrp", "vrpb", "vrpl", "vrptw", "ovrptw", "ovrpb", "ovrpl", "vrpbl", "vrpbtw", "vrpltw",
                  "ovrpbl", "ovrpbtw", "ovrpltw", "vrpbltw", "ovrpbltw"]


class MTVRP(Spec):
    name = "mtvrp"
    sources = ("gen", "lat", "flt")

    def cfg(self, tier):
        # mixed-variant batches ("all", "single_feat") are where cross-row slips show: give them half of the draws
        # explicitly (entries at the end of a long sampled_from list are under-sampled in short Hypothesis runs)
        variants = st.one_of(st.just("all"), st.sampled_from(MTVRP_VARIANTS), st.just("single_feat"),
                             st.sampled_from(MTVRP_VARIANTS[::-1]))
        return st.tuples(self.sizes(tier), variants,
                         st.sampled_from([1.0, 1.0, 0.5, 0.75, 2.0]), st.booleans(), st.sampled_from([0.2, 0.2, 0.5]),
                         st.sampled_from([3.0, 3.0, 2.9, 4.0])).map(
            lambda t: {"n": t[0], "variant": t[1], "speed": t[2], "scale_demand": t[3] or t[1] in ("all",),
                       "backhaul_ratio": t[4], "distance_limit": t[5]})

    def build(self, cfg):
        from rl4co.envs import MTVRPEnv
        sp = cfg.get("speed", 1.0)
        # precondition of the generator's time-window construction (not asserted by it): a customer must be able to
        # be served and the vehicle be back within max_time, i.e. max_time has to grow with 1/speed for slow vehicles
        return MTVRPEnv(generator_params=dict(num_loc=cfg["n"], variant_preset=cfg["variant"], speed=sp,
                                              max_time=4.6 / min(sp, 1.0),
                                              scale_demand=cfg.get("scale_demand", True),
                                              backhaul_ratio=cfg.get("backhaul_ratio", 0.2),
                                              distance_limit=cfg.get("distance_limit", 3.0)), check_solution=False, **ctor(cfg))

    def lattice(self, cfg, B, exact=True):
        """Hand-built instances in the documented reset format; features follow the preset letters."""
        n = cfg["n"]
        var = cfg["variant"]
        feats = st.fixed_dictionaries({k: st.booleans() for k in "OTLB"}) if var in ("all", "single_feat") else \
            st.just({"O": var.startswith("o"), "T": "tw" in var, "L": "l" in var.replace("ovrp", "").replace("vrp", ""),
                     "B": "b" in var.replace("ovrp", "").replace("vrp", "")})

        # demand units: normalised (k/8 of a capacity-1 vehicle: the format of scale_demand=True) or, when the drawn
        # config says scale_demand=False, the generator's RAW units: integer demands 1..9 and an integer vehicle
        # capacity C != 1 per row (rows of one batch may carry different capacities - instance files can), both exact
        # in float32
        raw = not cfg.get("scale_demand", True)

        @st.composite
        def row(draw):
            f = draw(feats)
            locs = draw(coords(n + 1, 8))
            if raw:
                dem = [float(draw(st.integers(1, 9))) if exact else draw(st.floats(0.5, 9.0, width=32)) for _ in range(n)]
                cap = float(draw(st.integers(9, 24)))
            else:
                dem = draw(eighths(n, exact=exact))
                cap = None
            isb = draw(st.lists(st.booleans(), min_size=n, max_size=n)) if f["B"] else [False] * n
            lh = [0.0] + [0.0 if b else d for d, b in zip(dem, isb)]
            bh = [0.0] + [d if b else 0.0 for d, b in zip(dem, isb)]
            d0 = [math.hypot(p[0] - locs[0][0], p[1] - locs[0][1]) for p in locs]
            # the speed is a per-instance field of the state ([B, 1], like the capacity): rows of a hand-built batch
            # may carry different speeds (instance files / generator subclasses overriding generate_speed)
            sp = draw(st.sampled_from([cfg.get("speed", 1.0)] * 3 + [0.5, 1.0, 2.0]))
            if f["T"]:
                tws, sts = [], [0.0]
                mt = 8.0
                alone = 0.0  # latest return to the depot over the single-customer routes depot -> j -> depot
                for j in range(1, n + 1):
                    s = draw(st.integers(0, 2)) / 8.0
                    first = math.ceil(d0[j] / sp * 8) + 1
                    lo = draw(st.integers(first, first + 32)) / 8.0
                    hi = lo + draw(st.integers(1, 8)) / 8.0
                    tws.append([lo, hi])
                    sts.append(s)
                    mt = max(mt, math.ceil(hi + s + d0[j] / sp) + 1.0)
                    alone = max(alone, max(d0[j] / sp, lo) + s + d0[j] / sp)
                if not f["O"] and draw(st.booleans()):
                    # BINDING depot closing time (closed routes only; generator data never makes it bind): every customer
                    # can still be served alone with the vehicle back 1-3 lattice units before the depot closes, so the
                    # instance stays solvable, but most routes with two or more customers would return late - the
                    # mask's "back at the depot in time" clause decides them (oracle: depot_deadline)
                    mt = (math.ceil(alone * 8) + draw(st.integers(1, 2))) / 8.0
                tws = [[0.0, mt]] + tws
            else:
                tws, sts = [[0.0, 1e30]] * (n + 1), [0.0] * (n + 1)
            lim = max(draw(st.integers(16, 40)) / 8.0, 2 * max(d0) + 0.125) if f["L"] else 1e30
            return locs, lh, bh, tws, sts, lim, f["O"], cap, sp

        def pack(rows):
            out = {"locs": [r[0] for r in rows], "demand_linehaul": [r[1] for r in rows],
                   "demand_backhaul": [r[2] for r in rows], "time_windows": [r[3] for r in rows],
                   "service_time": [r[4] for r in rows], "distance_limit": [[r[5]] for r in rows],
                   "open_route": [[r[6]] for r in rows], "speed": [[r[8]] for r in rows]}
            if raw:
                out["vehicle_capacity"] = [[r[7]] for r in rows]
            return out
        return st.lists(row(), min_size=B, max_size=B).map(pack)

    def from_lattice(self, cfg, lat):
        B = len(lat["locs"])
        inf = float("inf")
        tw = t32(lat["time_windows"])
        tw[tw >= 1e29] = inf
        dl = t32(lat["distance_limit"])
        dl[dl >= 1e29] = inf
        return TensorDict({
            "locs": t32(lat["locs"]), "demand_linehaul": t32(lat["demand_linehaul"]),
            "demand_backhaul": t32(lat["demand_backhaul"]), "time_windows": tw,
            "service_time": t32(lat["service_time"]), "distance_limit": dl,
            "open_route": torch.tensor(lat["open_route"], dtype=torch.bool),
            "vehicle_capacity": t32(lat["vehicle_capacity"]) if "vehicle_capacity" in lat else torch.ones(B, 1),
            "capacity_original": t32(lat["vehicle_capacity"]) if "vehicle_capacity" in lat else torch.full((B, 1), 8.0),
            "speed": t32(lat["speed"]) if "speed" in lat else torch.full((B, 1), float(cfg.get("speed", 1.0))),
        }, batch_size=[B])

    def bound(self, cfg, r):
        return 2 * cfg["n"] + 1

    def slice_of(self, cfg):
        return cfg["variant"]


def mtvrp_inst(r):
    """Flatten [x] singleton features of a to_py() MTVRP row."""
    out = dict(r)
    for k in ("vehicle_capacity", "speed", "distance_limit", "open_route", "capacity_original"):
        v = out.get(k)
        while isinstance(v, list):
            v = v[0]
        out[k] = v
    return out


SPECS = {s.name: s for s in [TSP(), ATSP(), CVRP(), SDVRP(), CVRPTW(), SVRP(), OP(), PCTSP(), SPCTSP(), PDP(), MTSP(),
                             MTVRP()]}


def py_instance(name, td_row):
    r = to_py(td_row)
    if name == "mtvrp":
        r = mtvrp_inst(r)
    if name == "op":
        ml = r["max_length"]
        r["max_length"] = ml if not isinstance(ml, list) else ml[0]
    return r


# --------------------------------------------------------------------------- episode cases
# envs that take every size from the instance (probed on the pinned tree: identical episodes and rewards whether the env
# object was configured for the instance's size or another one) -> keys of the config that may differ for the env object
ENV_SHAPE_FREE = {"tsp": ("n",), "cvrp": ("n",), "sdvrp": ("n",), "cvrptw": ("n",), "svrp": ("n",), "op": ("n",),
                  "mtvrp": ("n",), "flp": ("n",), "fjsp": ("jobs", "mas"), "mcp": ("sets", "items")}


def row_strategy(maxlen=24):
    return st.fixed_dictionaries({
        "mode": st.sampled_from(MODES + ["stream", "stream"]),
        "stream": st.lists(st.integers(0, 63), min_size=1, max_size=maxlen),
    })


@st.composite
def episode_cases(draw, tier, names, max_b=None, sources=None):
    name = draw(st.sampled_from(names))
    spec = SPECS[name]
    cfg = draw(spec.cfg(tier))
    B = draw(st.integers(1, max_b or (6 if tier == "quick" else 12)))
    srcs = sources or spec.sources
    src = draw(st.sampled_from(srcs))
    if isinstance(cfg.get("n"), int) and cfg["n"] > 100:
        # huge instances: generator-drawn only (a hand-built lattice of this size exceeds Hypothesis' data budget)
        src, B = ("gen" if "gen" in srcs else src), min(B, 3)
    case = {"env": name, "cfg": cfg, "B": B, "src": src, "seed": draw(st.integers(0, 2 ** 31 - 1))}
    if src in ("lat", "flt"):
        case["lat"] = draw(spec.lattice(cfg, B, exact=(src == "lat")))
    elif src == "tgt":
        case["lat"] = draw(spec.tight(cfg, B))
    case["rows"] = [draw(row_strategy()) for _ in range(B)]
    # environment object configured for ANOTHER size than the instances it is given (generalisation runs: a model / env
    # built for n nodes evaluated on other sizes).  Only for environments whose reset takes every size from the data
    # on the pinned tree (TSP's reset says so: "We do not enforce loading from self for flexibility"; FJSP re-reads the
    # shape in set_instance_params); the instance itself still comes from a generator / lattice of its own size.
    if name in ENV_SHAPE_FREE and draw(st.integers(0, 5)) == 0:
        ov = {}
        for k_ in ENV_SHAPE_FREE[name]:
            lo, hi = (1, 4) if k_ in ("jobs", "mas") else ((2, 9) if k_ == "sets" else ((3, 16) if k_ == "items" else (2, 12)))
            ov[k_] = draw(st.integers(lo, hi))
        if any(ov[k_] != cfg[k_] for k_ in ov):
            if name == "fjsp":
                ov["max_elig"] = min(cfg["max_elig"], ov["mas"])
            if name == "flp":
                ov["k"] = min(cfg["k"], ov["n"])
            if name == "mcp":
                ov["items"] = max(ov["items"], cfg["max_size"])
                ov["k"] = min(cfg["k"], ov["sets"])
            case["env_shape"] = ov
    # stepping mode of the driver (vf.play): the default loop of every policy, or TorchRL mode with / without look-ahead
    case["stepping"] = draw(st.sampled_from(["default", "default", "default", "default", "torchrl", "torchrl_probe"]))
    return case


# --------------------------------------------------------------------------- scheduling / graph specs
class FJSP(Spec):
    name = "fjsp"
    routing = False

    def cfg(self, tier):
        big = tier != "quick"

        @st.composite
        def c(draw):
            jobs = draw(st.integers(1, 6 if big else 4))
            mas = draw(st.integers(1, 4 if big else 3))
            lo = draw(st.integers(1, 3))
            hi = draw(st.integers(lo, 4 if big else 3))
            return {"jobs": jobs, "mas": mas, "min_ops": lo, "max_ops": hi,
                    "max_pt": draw(st.sampled_from([3, 6, 9, 20, 20, 2000, 6000])),
                    "max_elig": draw(st.integers(1, mas)), "same_mean": draw(st.booleans()),
                    "mask_no_ops": draw(st.booleans()), **draw(self.reward_opts())}
        return c()

    @staticmethod
    def reward_opts():
        # constructor options of FJSPEnv / JSSPEnv: stepwise_reward=True (the env of every L2D-PPO run: each step's
        # reward is the negative change of the largest lower bound) and check_mask=True (the step asserts that every
        # row is left with an action)
        return st.fixed_dictionaries({"stepwise": st.sampled_from([False, True, True]), "check_mask": st.booleans()})

    def build(self, cfg):
        from rl4co.envs import FJSPEnv
        return FJSPEnv(generator_params=dict(
            num_jobs=cfg["jobs"], num_machines=cfg["mas"], min_ops_per_job=cfg["min_ops"],
            max_ops_per_job=cfg["max_ops"], min_processing_time=1, max_processing_time=cfg["max_pt"],
            min_eligible_ma_per_op=1, max_eligible_ma_per_op=cfg["max_elig"], same_mean_per_op=cfg["same_mean"]),
            mask_no_ops=cfg["mask_no_ops"], stepwise_reward=cfg.get("stepwise", False),
            check_mask=cfg.get("check_mask", False), **ctor(cfg))

    one_machine_per_op = False

    def lattice(self, cfg, B, exact=True):
        jobs, mas = cfg["jobs"], cfg["mas"]

        @st.composite
        def row(draw):
            nops = [draw(st.integers(cfg["min_ops"], cfg["max_ops"])) for _ in range(jobs)]
            pts = []
            for _ in range(sum(nops)):
                if self.one_machine_per_op:
                    m = draw(st.integers(0, mas - 1))
                    t = draw(st.integers(1, cfg["max_pt"]))
                    pts.append([t if i == m else 0 for i in range(mas)])
                else:
                    col = draw(st.lists(st.integers(0, cfg["max_pt"]), min_size=mas, max_size=mas))
                    if not any(col):
                        col[draw(st.integers(0, mas - 1))] = draw(st.integers(1, cfg["max_pt"]))
                    pts.append(col)
            return nops, pts
        return st.lists(row(), min_size=B, max_size=B).map(lambda rows: {"rows": rows})

    def from_lattice(self, cfg, lat):
        rows = lat["rows"]
        B = len(rows)
        mas = cfg["mas"]
        nmax = max(sum(r[0]) for r in rows)
        proc = torch.zeros(B, mas, nmax)
        pad = torch.ones(B, nmax, dtype=torch.bool)
        start = torch.zeros(B, cfg["jobs"], dtype=torch.int64)
        end = torch.zeros(B, cfg["jobs"], dtype=torch.int64)
        for b, (nops, pts) in enumerate(rows):
            k = 0
            for j, n in enumerate(nops):
                start[b, j] = k
                end[b, j] = k + n - 1
                k += n
            for o, col in enumerate(pts):
                for m in range(mas):
                    proc[b, m, o] = float(col[m])
                pad[b, o] = False
        return TensorDict({"start_op_per_job": start, "end_op_per_job": end, "proc_times": proc, "pad_mask": pad},
                          batch_size=[B])

    def bound(self, cfg, r):
        nops = sum(1 for p in r["pad_mask"] if not p)
        return 2 * nops + 1

    def slice_of(self, cfg):
        return ("mask_no_ops" if cfg["mask_no_ops"] else "wait_allowed") + ("@stepwise" if cfg.get("stepwise") else "")


class JSSP(FJSP):
    name = "jssp"
    one_machine_per_op = True

    def cfg(self, tier):
        big = tier != "quick"

        @st.composite
        def c(draw):
            jobs = draw(st.integers(1, 6 if big else 4))
            mas = draw(st.integers(1, 4 if big else 3))
            one2one = draw(st.booleans())
            if one2one:
                lo = hi = mas
            else:
                lo = draw(st.integers(1, 3))
                hi = draw(st.integers(lo, 4 if big else 3))
            return {"jobs": jobs, "mas": mas, "min_ops": lo, "max_ops": hi, "one2one": one2one,
                    "max_pt": draw(st.sampled_from([3, 9, 99, 99, 2000, 6000])), "mask_no_ops": draw(st.booleans()),
                    **draw(self.reward_opts())}
        return c()

    def build(self, cfg):
        from rl4co.envs import JSSPEnv
        return JSSPEnv(generator_params=dict(
            num_jobs=cfg["jobs"], num_machines=cfg["mas"], min_ops_per_job=cfg["min_ops"],
            max_ops_per_job=cfg["max_ops"], min_processing_time=1, max_processing_time=cfg["max_pt"],
            one2one_ma_map=cfg["one2one"]), mask_no_ops=cfg["mask_no_ops"],
            stepwise_reward=cfg.get("stepwise", False), check_mask=cfg.get("check_mask", False), **ctor(cfg))


class FFSP(Spec):
    name = "ffsp"
    routing = False

    def cfg(self, tier):
        big = tier != "quick"
        return st.tuples(st.integers(1, 6 if big else 4), st.integers(1, 3), st.integers(1, 3),
                         st.sampled_from([3, 5, 10]), st.booleans()).map(
            lambda t: {"jobs": t[0], "stages": t[1], "mas": t[2], "max_time": t[3], "flatten": t[4]})

    def build(self, cfg):
        from rl4co.envs import FFSPEnv
        return FFSPEnv(generator_params=dict(num_stage=cfg["stages"], num_machine=cfg["mas"], num_job=cfg["jobs"],
                                             min_time=1, max_time=cfg["max_time"],
                                             flatten_stages=cfg.get("flatten", True)), **ctor(cfg))

    # NOTE: the env object is cached like all others: it is reused *sequentially* for many episodes with
    # different batch sizes (legitimate usage); it still serves only one episode at a time.

    def lattice(self, cfg, B, exact=True):
        mt = cfg["stages"] * cfg["mas"]
        row = st.lists(st.lists(st.integers(1, cfg["max_time"]), min_size=mt, max_size=mt),
                       min_size=cfg["jobs"], max_size=cfg["jobs"])
        return st.fixed_dictionaries({"run_time": st.lists(row, min_size=B, max_size=B)})

    def from_lattice(self, cfg, lat):
        return TensorDict({"run_time": torch.tensor(lat["run_time"], dtype=torch.int64)},
                          batch_size=[len(lat["run_time"])])

    def bound(self, cfg, r):
        J, S, M = cfg["jobs"], cfg["stages"], cfg["mas"]
        horizon = sum(max(row) for row in r["run_time"]) * 1 + S + 1
        return J * S + S * M * (horizon + 1) + 1


class SMTWTP(Spec):
    name = "smtwtp"
    routing = False

    def build(self, cfg):
        from rl4co.envs import SMTWTPEnv
        return SMTWTPEnv(generator_params=dict(num_job=cfg["n"]), **ctor(cfg))

    def lattice(self, cfg, B, exact=True):
        n = cfg["n"]
        v = lambda hi: st.lists(st.integers(0, hi).map(lambda k: k / 8.0), min_size=n, max_size=n).map(lambda l: [0.0] + l)
        return st.fixed_dictionaries({
            "job_due_time": st.lists(v(8 * n), min_size=B, max_size=B),
            "job_weight": st.lists(v(8), min_size=B, max_size=B),
            "job_process_time": st.lists(v(8), min_size=B, max_size=B),
        })

    def bound(self, cfg, r):
        return cfg["n"]


class FLP(Spec):
    name = "flp"
    routing = False
    has_depot_action = False

    def sizes(self, tier):
        return st.integers(2, 12) if tier == "quick" else st.integers(2, 30)

    def cfg(self, tier):
        # scale > 1: hand-supplied coordinates outside the generator's default unit box (documented format has no box)
        return self.sizes(tier).flatmap(lambda n: st.tuples(st.integers(1, n), st.sampled_from([1.0, 1.0, 3.0])).map(
            lambda t: {"n": n, "k": t[0], "scale": t[1]}))

    def build(self, cfg):
        from rl4co.envs import FLPEnv
        return FLPEnv(generator_params=dict(num_loc=cfg["n"], to_choose=cfg["k"]), **ctor(cfg))

    def lattice(self, cfg, B, exact=True):
        return st.fixed_dictionaries({"locs": st.lists(coords(cfg["n"]), min_size=B, max_size=B)})

    def from_lattice(self, cfg, lat):
        from rl4co.utils.ops import get_distance_matrix
        locs = t32(lat["locs"]) * float(cfg.get("scale", 1.0))
        B, n = locs.shape[:2]
        D = get_distance_matrix(locs)
        if lat.get("asym") is not None:
            # direction-dependent travel costs (one-way / uphill): reset takes the matrix from the instance, so an
            # asymmetric one is legal input; factors 1 + k/8 per ordered pair, zero diagonal kept
            D = D * (1.0 + t32(lat["asym"]) / 8.0)
        return TensorDict({"locs": locs, "orig_distances": D,
                           "distances": torch.full((B, n), math.sqrt(2.0)),
                           "chosen": torch.zeros(B, n, dtype=torch.bool),
                           "to_choose": torch.full((B,), cfg["k"], dtype=torch.long)}, batch_size=[B])

    def bound(self, cfg, r):
        return cfg["k"]


class MCP(Spec):
    name = "mcp"
    routing = False
    has_depot_action = False

    def cfg(self, tier):
        big = tier != "quick"

        @st.composite
        def c(draw):
            items = draw(st.integers(3, 40 if big else 16))
            sets = draw(st.integers(2, 20 if big else 8))
            lo = draw(st.integers(1, min(4, items)))
            hi = draw(st.integers(lo, min(items, lo + 5)))
            return {"items": items, "sets": sets, "min_size": lo, "max_size": hi, "k": draw(st.integers(1, sets))}
        return c()

    def build(self, cfg):
        from rl4co.envs import MCPEnv
        return MCPEnv(generator_params=dict(num_items=cfg["items"], num_sets=cfg["sets"], min_size=cfg["min_size"],
                                            max_size=cfg["max_size"], n_sets_to_choose=cfg["k"]), **ctor(cfg))

    def lattice(self, cfg, B, exact=True):
        items, sets = cfg["items"], cfg["sets"]
        one_set = st.lists(st.integers(1, items), min_size=cfg["min_size"], max_size=cfg["max_size"], unique=True)
        return st.fixed_dictionaries({
            "sets": st.lists(st.lists(one_set, min_size=sets, max_size=sets), min_size=B, max_size=B),
            "weights": st.lists(st.lists(st.integers(1, 10), min_size=items, max_size=items), min_size=B, max_size=B),
        })

    def from_lattice(self, cfg, lat):
        B = len(lat["sets"])
        width = max(len(s) for row in lat["sets"] for s in row)
        mem = torch.zeros(B, cfg["sets"], width)
        for b, row in enumerate(lat["sets"]):
            for j, s in enumerate(row):
                for i, it in enumerate(s):
                    mem[b, j, i] = float(it)
        return TensorDict({"membership": mem, "weights": t32(lat["weights"]),
                           "n_sets_to_choose": torch.full((B, 1), float(cfg["k"]))}, batch_size=[B])

    def bound(self, cfg, r):
        return cfg["k"]


for _s in [FJSP(), JSSP(), FFSP(), SMTWTP(), FLP(), MCP()]:
    SPECS[_s.name] = _s

ROUTING = ["tsp", "atsp", "cvrp", "sdvrp", "cvrptw", "svrp", "op", "pctsp", "spctsp", "pdp", "mtsp", "mtvrp"]
SCHEDULING = ["fjsp", "jssp", "ffsp", "smtwtp"]
GRAPH = ["flp", "mcp"]
ALL_ENVS = ROUTING + SCHEDULING + GRAPH


class MDCPDP(Spec):
    name = "mdcpdp"
    has_depot_action = False  # several depots; no single 'action 0' convention

    def sizes(self, tier):
        return (st.integers(1, 4) if tier == "quick" else st.integers(1, 8)).map(lambda k: 2 * k)

    def cfg(self, tier):
        return st.fixed_dictionaries({
            "n": self.sizes(tier), "depots": st.integers(1, 4), "dist_mode": st.sampled_from(["L2", "L2", "L1"]),
            "reward_mode": st.sampled_from(["minmax", "minsum", "lateness"]),
            "problem_mode": st.sampled_from(["close", "open"]), "depot_mode": st.sampled_from(["multiple", "single"]),
            "max_cap": st.integers(1, 3), "lw": st.sampled_from([1.0, 0.5, 0.0]),
            # start_mode="random": reset draws td["current_depot"] from the global torch RNG (the episode drivers seed
            # it from the instance, see vf.episode.seed_reset).  On the pinned tree the drawn depot lives in the reset
            # state only: the reset mask offers depot 0 alone and the first step overwrites current_depot with the
            # depot actually visited, so masks / states / rewards from the first step on do not depend on the draw
            # (that is what C01-C04 compare; a step that trusts the reset value instead shows only under "random").
            "start_mode": st.sampled_from(["order", "random"]),
        })

    def build(self, cfg):
        from rl4co.envs import MDCPDPEnv
        return MDCPDPEnv(generator_params=dict(num_loc=cfg["n"], num_depot=cfg["depots"], depot_mode=cfg["depot_mode"],
                                               min_capacity=1, max_capacity=cfg["max_cap"],
                                               min_lateness_weight=cfg["lw"], max_lateness_weight=cfg["lw"]),
                         dist_mode=cfg["dist_mode"], reward_mode=cfg["reward_mode"], problem_mode=cfg["problem_mode"],
                         start_mode=cfg.get("start_mode", "order"), **ctor(cfg))

    def lattice(self, cfg, B, exact=True):
        n, D = cfg["n"], cfg["depots"]
        return st.fixed_dictionaries({
            "locs": st.lists(coords(n), min_size=B, max_size=B),
            "depot": st.lists(coords(D), min_size=B, max_size=B),
            "capacity": st.lists(st.lists(st.integers(1, cfg["max_cap"]), min_size=D, max_size=D), min_size=B, max_size=B),
        })

    def from_lattice(self, cfg, lat):
        B = len(lat["locs"])
        return TensorDict({"locs": t32(lat["locs"]), "depot": t32(lat["depot"]),
                           "capacity": torch.tensor(lat["capacity"], dtype=torch.int64),
                           "lateness_weight": torch.full((B, 1), float(cfg["lw"]))}, batch_size=[B])

    def bound(self, cfg, r):
        return cfg["n"] + 2 * cfg["depots"] - 1

    def judge_cfg(self, cfg):
        return cfg

    def slice_of(self, cfg):
        rs = "@random_start" if cfg.get("start_mode") == "random" else ""  # inside the reward slot: signature patterns
        return f"{cfg['problem_mode']}|{cfg['reward_mode']}{rs}|{'multi' if cfg['depots'] > 1 else 'single'}"


SPECS["mdcpdp"] = MDCPDP()
ROUTING.append("mdcpdp")
ALL_ENVS.append("mdcpdp")


# --------------------------------------------------------------------------- EDA specs (synthetic PDN data, vf/eda.py)
class DPP(Spec):
    name = "dpp"
    routing = False
    has_depot_action = False
    sources = ("gen", "lat")
    multi = False

    def cfg(self, tier):
        @st.composite
        def c(draw):
            size = draw(st.sampled_from([4, 5, 6, 8] if tier == "quick" else [4, 5, 6, 8, 10]))
            cells = size * size
            k = draw(st.integers(1, 6))
            kmin = draw(st.integers(0, 3))
            kmax = draw(st.integers(kmin + 1, max(kmin + 1, cells - k - 6)))
            cfg = {"size": size, "k": k, "keepout_min": kmin, "keepout_max": kmax}
            if self.multi:
                pmin = draw(st.integers(1, 2))
                cfg.update(probes_min=pmin, probes_max=draw(st.integers(pmin + 1, 4)),
                           reward_type=draw(st.sampled_from(["minmax", "meansum"])))
            return cfg
        return c()

    def gparams(self, cfg):
        from .eda import data_dir
        s = cfg["size"]
        p = dict(data_dir=data_dir(), chip_file=f"{s}x{s}_pkg_chip.npy", max_decaps=cfg["k"],
                 num_keepout_min=cfg["keepout_min"], num_keepout_max=cfg["keepout_max"])
        if self.multi:
            p.update(num_probes_min=cfg["probes_min"], num_probes_max=cfg["probes_max"])
        return p

    def build(self, cfg):
        from rl4co.envs import DPPEnv
        return DPPEnv(generator_params=self.gparams(cfg), **ctor(cfg))

    def bound(self, cfg, r):
        return cfg["k"]

    def lattice(self, cfg, B, exact=True):
        """Hand-built instances in the documented reset format (locs grid, probe, action_mask).  DPP: the mask excludes
        keep-out cells and the probing port (as the docstring of the generator states).  MDPP: the mask excludes the
        keep-out cells only - MDPPEnv._reset documents that it removes the probing ports itself ("Action mask is 0 if
        both action_mask (e.g. keepout) and probe are 0")."""
        cells = cfg["size"] ** 2
        k = cfg["k"]

        @st.composite
        def row(draw):
            n_probe = draw(st.integers(1, 3)) if self.multi else 1
            n_keep = draw(st.integers(0, max(0, min(8, cells - k - n_probe - 2))))
            picked = draw(st.lists(st.integers(0, cells - 1), min_size=n_keep + n_probe, max_size=n_keep + n_probe, unique=True))
            return {"keepout": picked[:n_keep], "probes": picked[n_keep:]}
        return st.lists(row(), min_size=B, max_size=B).map(lambda rows: {"rows": rows})

    def from_lattice(self, cfg, lat):
        m = cfg["size"]
        rows = lat["rows"]
        B = len(rows)
        g = torch.stack(torch.meshgrid(torch.arange(m), torch.arange(m), indexing="ij"), dim=-1).reshape(-1, 2)
        locs = (g / torch.tensor([m, m], dtype=torch.float)).unsqueeze(0).repeat(B, 1, 1)
        mask = torch.ones(B, m * m, dtype=torch.bool)
        for b, r in enumerate(rows):
            for c in r["keepout"]:
                mask[b, c] = False
        if self.multi:
            probe = torch.zeros(B, m * m, dtype=torch.bool)
            for b, r in enumerate(rows):
                for c in r["probes"]:
                    probe[b, c] = True
        else:
            probe = torch.tensor([[r["probes"][0]] for r in rows], dtype=torch.long)
            for b, r in enumerate(rows):
                mask[b, r["probes"][0]] = False
        return TensorDict({"locs": locs, "probe": probe, "action_mask": mask}, batch_size=[B])


class MDPP(DPP):
    name = "mdpp"
    multi = True

    def build(self, cfg):
        from rl4co.envs import MDPPEnv
        return MDPPEnv(generator_params=self.gparams(cfg), reward_type=cfg["reward_type"], **ctor(cfg))


SPECS["dpp"] = DPP()
SPECS["mdpp"] = MDPP()
EDA = ["dpp", "mdpp"]
ALL_ENVS += EDA
