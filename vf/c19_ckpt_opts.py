"""C19 (continued) - Lightning checkpoints under the constructor / loader options the base `checkpoint` sub keeps fixed.

Audit items 7, 8, 9, 31 and history H1 of the option-coverage audit:

  * model classes that build their own policy (`policy=None` + `policy_kwargs`): AttentionModel, POMO, SymNCO, AMPPO,
    HeterogeneousAttentionModel, MatNet (`policy_params`), MDAM, PointerNetwork, PolyNet (also constructed from a base
    model through `base_model_checkpoint_path`), L2DModel (fjsp / jssp), L2DPPOModel, DACT, NeuOpt, N2S;
  * lazily created critics: REINFORCE(baseline="critic") without `critic=` (CriticBaseline.setup; 128-dim policy, the
    only width create_critic_from_actor(policy) supports without arguments), A2C / PPO(critic=None, critic_kwargs=...);
    `baseline_kwargs` (n_epochs, exp_beta, bl_alpha, beta) and `reward_scale`;
  * non-default `optimizer`, `optimizer_kwargs`, `lr_scheduler`, `lr_scheduler_kwargs`, `lr_scheduler_interval`,
    `shuffle_train_dataloader`, `val_batch_size` / `test_batch_size` (int, or a list together with a list of val files);
  * arguments of `load_from_checkpoint`: `load_baseline`, `strict`, `hparams_file` (Lightning's tags-csv format; the yaml
    route cannot take the env / policy objects: omegaconf container, outside rl4co), override keyword arguments
    (batch_size, *_data_size, env, reward_scale, optimizer_kwargs, baseline, policy = a freshly initialised policy of
    the same architecture, i.e. the weights can only come from the checkpoint's state_dict);
  * history H1: the loaded model is trained on (fresh Trainer.fit(loaded), or Trainer(max_epochs+1).fit(loaded,
    ckpt_path=first checkpoint)), saved and loaded a second time.

Oracle (every load): policy parameters / buffers bit-equal to the model that wrote the checkpoint; all other modules
(critic, baseline networks, rollout-baseline policy, policy_old) bit-equal unless the baseline was not loaded /
replaced; with load_baseline=False a string-configured baseline carries no state at all (fresh); type and configuration
of the baseline (n_epochs, warm-up beta, bl_alpha, beta) and of the advantage scaler; critic(td) and greedy solutions of
the policy on fresh instances bit-equal; plain attributes of model and policy equal; the optimizer / scheduler that
configure_optimizers() builds has the class and hyper-parameters of the original's; data_cfg equal; every override is
visible in `loaded.hparams` and in behaviour (data_cfg, env object, scaler, optimizer lr, baseline type).
PolyNet(base_model_checkpoint_path=): every policy tensor whose name and shape exist in the base checkpoint equals it
right after construction (documented: "load weights from baseline model", torch.load + strip "policy." + strict=False).
"""
import csv
import os

import numpy as np
import torch

PHASES = ("train", "val", "test")
REINFORCE_FAMILY = ("AttentionModel", "POMO", "SymNCO", "REINFORCE", "A2C", "HeterogeneousAttentionModel", "MatNet",
                    "MDAM", "PointerNetwork", "PolyNet", "L2DModel")
KINDS = ["am_pk", "pomo_pk", "symnco_pk", "reinforce_critic_lazy", "a2c_lazy", "ppo_lazy", "reinforce_rollout_kw",
         "reinforce_exp_kw", "amppo", "ham", "matnet", "mdam", "ptrnet", "polynet", "polynet_base", "l2d", "l2dppo",
         "dact", "neuopt", "n2s"]
REPS = {"quick": 3, "thorough": 20}


def _c19():
    from .props import c19

    return c19


# =========================================================================== enumeration
def _pk(emb):
    return dict(embed_dim=emb, num_encoder_layers=1, num_heads=2, feedforward_hidden=2 * emb)


def _kind_spec(kind, rs, n, emb):
    """-> (cls name, env spec, policy spec or None, JSON-able constructor kwargs, trainer family)."""
    bl_free = str(rs.choice(["rollout", "no", "exponential", "mean"]))
    envn = str(rs.choice(["tsp", "cvrp"]))
    if kind == "am_pk":
        return "AttentionModel", [envn, n], None, dict(policy_kwargs=_pk(emb), baseline=bl_free), "auto"
    if kind == "pomo_pk":
        aug = [dict(num_augment=8, augment_fn="dihedral8"), dict(num_augment=int(rs.randint(2, 4)), augment_fn="symmetric"),
               dict(num_augment=1)][int(rs.randint(0, 3))]
        return "POMO", [envn, n], None, dict(policy_kwargs=_pk(emb), num_starts=[None, 2, 3][int(rs.randint(0, 3))],
                                             **aug), "auto"
    if kind == "symnco_pk":
        return "SymNCO", [envn, n], None, dict(policy_kwargs=_pk(emb), num_augment=int(rs.randint(2, 4)),
                                               num_starts=[0, 0, 2][int(rs.randint(0, 3))]), "auto"
    if kind == "reinforce_critic_lazy":
        pol = ["AttentionModelPolicy", dict(env_name=envn, embed_dim=128, num_encoder_layers=1, num_heads=2,
                                            feedforward_hidden=32)]
        return "REINFORCE", [envn, n], pol, dict(baseline="critic"), "auto"
    if kind == "a2c_lazy":
        return "A2C", [envn, n], ["AttentionModelPolicy", dict(env_name=envn, **_pk(emb))], dict(
            critic_kwargs=dict(embed_dim=emb, hidden_dim=2 * emb)), "auto"
    if kind == "ppo_lazy":
        return "PPO", [envn, n], ["AttentionModelPolicy", dict(env_name=envn, **_pk(emb))], dict(
            critic_kwargs=dict(embed_dim=emb, hidden_dim=2 * emb), mini_batch_size=4, ppo_epochs=1,
            clip_range=float(rs.choice([0.2, 0.1])), vf_lambda=float(rs.choice([0.5, 1.0]))), "manual"
    if kind == "reinforce_rollout_kw":
        bk = dict(n_epochs=int(rs.randint(1, 4)), exp_beta=float(rs.choice([0.5, 0.8, 0.9])),
                  bl_alpha=float(rs.choice([0.05, 0.2, 1.0])))
        return "REINFORCE", [envn, n], ["AttentionModelPolicy", dict(env_name=envn, **_pk(emb))], dict(
            baseline="rollout", baseline_kwargs=bk, reward_scale=[None, "norm", "scale"][int(rs.randint(0, 3))]), "auto"
    if kind == "reinforce_exp_kw":
        return "REINFORCE", [envn, n], ["AttentionModelPolicy", dict(env_name=envn, **_pk(emb))], dict(
            baseline="exponential", baseline_kwargs=dict(beta=float(rs.choice([0.0, 0.3, 0.95]))),
            reward_scale=[None, "norm", "scale"][int(rs.randint(0, 3))]), "auto"
    if kind == "amppo":
        return "AMPPO", [envn, n], None, dict(policy_kwargs=_pk(emb), critic_kwargs=dict(embed_dim=emb, hidden_dim=2 * emb),
                                             mini_batch_size=4, ppo_epochs=1), "manual"
    if kind == "ham":
        return "HeterogeneousAttentionModel", ["pdp", 2 * (n // 2)], None, dict(
            policy_kwargs=_pk(emb), baseline=bl_free), "auto"
    if kind == "matnet":
        return "MatNet", ["atsp", n], None, dict(policy_params=dict(embed_dim=emb, num_encoder_layers=1, num_heads=2),
                                                 num_starts=[None, 2][int(rs.randint(0, 2))]), "auto"
    if kind == "mdam":
        return "MDAM", ["tsp", n], None, dict(policy_kwargs=dict(embed_dim=emb, num_encoder_layers=1, num_heads=2,
                                                                 num_paths=int(rs.randint(2, 4))),
                                              baseline=str(rs.choice(["rollout", "no", "exponential"]))), "auto"
    if kind == "ptrnet":
        return "PointerNetwork", ["tsp", n], None, dict(policy_kwargs=dict(embed_dim=emb, hidden_dim=emb),
                                                        baseline=bl_free), "auto"
    if kind in ("polynet", "polynet_base"):
        k = int(rs.randint(2, 5))
        return "PolyNet", ["tsp", n], None, dict(k=k, val_num_solutions=k, policy_kwargs=_pk(emb), num_augment=2,
                                                 augment_fn="symmetric"), "auto"
    if kind == "l2d":
        return "L2DModel", [str(rs.choice(["fjsp", "jssp"])), 3], None, dict(
            policy_kwargs=dict(embed_dim=emb, num_encoder_layers=1), baseline=str(rs.choice(["rollout", "no"]))), "auto"
    if kind == "l2dppo":
        return "L2DPPOModel", [str(rs.choice(["fjsp_ppo", "jssp_ppo"])), 3], None, dict(
            # (StepwisePPO samples mini-batches without repetition from the step buffer of one batch: the buffer of a
            #  one-instance last batch holds as few as 3 rows)
            policy_kwargs=dict(embed_dim=emb, num_encoder_layers=1), mini_batch_size=2, ppo_epochs=1), "manual"
    if kind in ("dact", "neuopt", "n2s"):
        cls = {"dact": "DACT", "neuopt": "NeuOpt", "n2s": "N2S"}[kind]
        # (N2S reads the last three rows of the action record: needs at least three pickup/delivery pairs)
        env = {"dact": ["tsp_kopt2", n], "neuopt": ["tsp_kopt3", n], "n2s": ["pdp_rr", 6 + 2 * (n % 2)]}[kind]
        return cls, env, None, dict(policy_kwargs=dict(embed_dim=emb, num_encoder_layers=1, num_heads=2),
                                    critic_kwargs=dict(embed_dim=emb, num_heads=2, feedforward_hidden=emb),
                                    n_step=2, T_train=4, T_test=4, ppo_epochs=1,
                                    gamma=float(rs.choice([0.999, 0.9]))), "manual"
    raise KeyError(kind)


OPTIMS = [["Adam", {}], ["Adam", {}], ["AdamW", {"weight_decay": 0.01}], ["SGD", {"momentum": 0.9}], ["RMSprop", {}]]
SCHEDS = [[None, {}], [None, {}], ["MultiStepLR", {"milestones": [1, 3], "gamma": 0.5}], ["ExponentialLR", {"gamma": 0.9}],
          ["StepLR", {"step_size": 1, "gamma": 0.5}]]


def ckpt_opts_enum(tier="quick"):
    """Every kind REPS times; all remaining options from a numpy RandomState seeded with the run seed (plain JSON cases)."""
    C = _c19()
    reps = max(1, int(round(REPS.get(tier, 3) * float(os.environ.get("VF_BUDGET_SCALE", "1")))))
    rs = np.random.RandomState((C.run_seed() * 104729 + (17 if tier == "quick" else 18)) % (2 ** 31))
    out = []
    for rep in range(reps):
        for kind in KINDS:
            n = int(rs.randint(5, 8))
            emb = int(rs.choice([16, 32]))
            cls, env, pol, hp, family = _kind_spec(kind, rs, n, emb)
            opt, okw = OPTIMS[int(rs.randint(0, len(OPTIMS)))]
            sch, skw = SCHEDS[int(rs.randint(0, len(SCHEDS)))]
            lr = float(rs.choice([1e-3, 1e-2]))
            if cls in ("DACT", "NeuOpt", "N2S"):
                # n_step_PPO.on_train_epoch_end steps the scheduler by hand and its constructor sets its own defaults
                sch, skw = [(None, {}), ("ExponentialLR", {"gamma": 0.9})][int(rs.randint(0, 2))]
            hp = dict(hp, batch_size=4, train_data_size=int(rs.randint(8, 13)), val_data_size=int(rs.randint(3, 7)),
                      test_data_size=int(rs.randint(3, 5)), optimizer=opt,
                      shuffle_train_dataloader=bool(rs.randint(0, 2)))
            if cls == "A2C":
                hp["actor_optimizer_kwargs"] = dict(okw, lr=lr)
                if rs.randint(0, 2):
                    hp["critic_optimizer_kwargs"] = dict(okw, lr=lr * 3)
            else:
                hp["optimizer_kwargs"] = dict(okw, lr=lr)
            if sch is not None:
                hp.update(lr_scheduler=sch, lr_scheduler_kwargs=skw,
                          lr_scheduler_interval=str(rs.choice(["epoch", "step"])) if family == "auto" else "epoch")
            bs_kind = int(rs.randint(0, 4))
            val_files = 0
            if bs_kind == 1:
                hp["val_batch_size"] = int(rs.randint(2, 6))
            elif bs_kind == 2:
                hp["val_batch_size"], hp["test_batch_size"] = int(rs.randint(2, 6)), int(rs.randint(1, 4))
            elif bs_kind == 3 and env[0] in ("tsp", "cvrp") and cls != "PolyNet" and hp.get("baseline") != "rollout":
                # (REINFORCE hands val_batch_size to the rollout baseline as DataLoader batch size: a list crashes in
                #  setup on the unchanged tree - observation, outside C19; a list also needs its own test_batch_size)
                val_files = 2
                hp["val_batch_size"] = [int(rs.randint(1, 4)), int(rs.randint(2, 5))]
                hp["test_batch_size"] = int(rs.randint(1, 4))
            # ---- how the checkpoint is loaded
            refam = cls in REINFORCE_FAMILY
            route = str(rs.choice(["plain", "plain", "policy_override", "policy_override", "hparams_csv"]))
            load = {"route": route, "strict": [None, True, False][int(rs.randint(0, 3))]}
            if refam:
                load["load_baseline"] = bool(rs.randint(0, 10) >= 3)
            ov = {}
            picks = [str(x) for x in rs.choice(["none", "none", "batch_size", "data_size", "env", "reward_scale",
                                                "optimizer_kwargs", "baseline"], size=2)]
            for pck in picks:
                if pck == "batch_size" and cls != "PolyNet":  # (PolyNet derives val/test batch sizes from batch_size)
                    ov["batch_size"] = 3
                elif pck == "data_size":
                    ov["train_data_size"], ov["val_data_size"] = 6, 5
                elif pck == "env" and env[0] in ("tsp", "cvrp"):
                    ov["env"] = [env[0], n + 2]
                elif pck == "reward_scale" and refam:
                    ov["reward_scale"] = "scale" if hp.get("reward_scale") != "scale" else "norm"
                elif pck == "optimizer_kwargs" and cls not in ("A2C", "DACT", "NeuOpt", "N2S"):  # (own group lrs)
                    ov["optimizer_kwargs"] = dict(okw, lr=0.25)
                elif pck == "baseline" and cls == "REINFORCE" or (pck == "baseline" and cls == "AttentionModel"):
                    # replacing the baseline is only defined if no stored baseline state has to fit the new one
                    stateless = hp.get("baseline") in ("no", "exponential", "mean")
                    if stateless or load.get("load_baseline") is False:
                        ov["baseline"] = "exponential" if hp.get("baseline") == "no" else "no"
            load["overrides"] = ov
            hist = str(rs.choice(["none", "none", "none", "fit_loaded", "resume", "resume", "resume"]))
            if hist == "resume" and (load.get("load_baseline") is False or "baseline" in ov or "batch_size" in ov
                                     or "train_data_size" in ov or "optimizer_kwargs" in ov or family != "auto"):
                hist = "fit_loaded"  # Trainer.fit(ckpt_path=) restores the full state: the module must match it
            # (42) who writes the checkpoint: trainer.save_checkpoint after fit | a ModelCheckpoint callback at the end of
            # the (only) epoch | a ModelCheckpoint callback after epoch 0 of a two-epoch fit (mid-fit file)
            saver = str(rs.choice(["trainer", "trainer", "trainer", "callback_last", "callback_midfit"]))
            if saver == "callback_midfit" and (hist == "resume" or kind == "polynet_base"):
                saver = "callback_last"
            out.append({"kind": kind, "cls": cls, "envspec": env, "pol": pol, "hp": hp, "family": family, "emb": emb,
                        "saver": saver,
                        "val_files": val_files, "load": load, "history": hist,
                        "seed": int(rs.randint(0, 2 ** 31 - 1)), "fresh_B": int(rs.randint(2, 5)),
                        "fresh_seed": int(rs.randint(0, 2 ** 31 - 1)), "between": int(rs.randint(0, 4))})
    return out


# =========================================================================== construction
def make_env(spec, files=None):
    import rl4co.envs as E

    name, n = spec
    kw = dict(files or {})
    if name == "tsp":
        return E.TSPEnv(generator_params=dict(num_loc=n), **kw)
    if name == "cvrp":
        return E.CVRPEnv(generator_params=dict(num_loc=n), **kw)
    if name == "pdp":
        return E.PDPEnv(generator_params=dict(num_loc=n))
    if name == "atsp":
        return E.ATSPEnv(generator_params=dict(num_loc=n))
    if name in ("fjsp", "fjsp_ppo"):
        gp = dict(num_jobs=n, num_machines=2, min_ops_per_job=1, max_ops_per_job=2)
        return E.FJSPEnv(generator_params=gp, **(dict(stepwise_reward=True, _torchrl_mode=True) if name.endswith("ppo") else {}))
    if name in ("jssp", "jssp_ppo"):
        gp = dict(num_jobs=n, num_machines=2)
        return E.JSSPEnv(generator_params=gp, **(dict(stepwise_reward=True, _torchrl_mode=True) if name.endswith("ppo") else {}))
    if name.startswith("tsp_kopt"):
        return E.TSPkoptEnv(generator_params=dict(num_loc=n), k_max=int(name[-1]))
    if name == "pdp_rr":
        return E.PDPRuinRepairEnv(generator_params=dict(num_loc=n))
    raise KeyError(name)


def model_class(name):
    import rl4co.models.rl as R
    import rl4co.models.zoo as Z

    return getattr(Z, name, None) or getattr(R, name)


def make_policy(pol):
    import rl4co.models.zoo as Z

    return getattr(Z, pol[0])(**pol[1])


def build(case, seed, files=None, extra=None):
    """The model of the case (weights initialised under `seed`); `extra` = additional constructor kwargs."""
    torch.manual_seed(seed)
    env = make_env(case["envspec"], files)
    args = dict(case["hp"])
    args.update(extra or {})
    if case["pol"] is not None:
        args["policy"] = make_policy(case["pol"])
    return model_class(case["cls"])(env, **args)


def trainer_for(case, d, epochs, callbacks=None):
    from rl4co.utils import RL4COTrainer

    tkw = dict(max_epochs=epochs, devices=1, accelerator="cpu", logger=False, enable_checkpointing=bool(callbacks),
               enable_progress_bar=False, enable_model_summary=False, precision="32-true", matmul_precision=None,
               default_root_dir=d, num_sanity_val_steps=0)
    if callbacks:
        tkw["callbacks"] = callbacks
    if case["family"] == "manual":
        tkw["gradient_clip_val"] = None
    return RL4COTrainer(**tkw)


def _state_recorder():
    """Callback that keeps a copy of the module's parameters / buffers at the moment a checkpoint is written."""
    from lightning.pytorch.callbacks import Callback

    class Recorder(Callback):
        def __init__(self):
            self.states = {}

        def on_save_checkpoint(self, trainer, pl_module, checkpoint):
            self.states[int(trainer.current_epoch)] = {k: v.detach().clone() for k, v in pl_module.state_dict().items()}

    return Recorder()


# =========================================================================== comparisons
def baseline_config(model):
    """Type and plain configuration of the REINFORCE baseline and of the advantage scaler."""
    from rl4co.models.rl.reinforce.baselines import (CriticBaseline, ExponentialBaseline, RolloutBaseline,
                                                     WarmupBaseline)

    bl = getattr(model, "baseline", None)
    if bl is None:
        return None
    out = {"type": type(bl).__name__}
    if isinstance(bl, WarmupBaseline):
        out.update(n_epochs=bl.n_epochs, warmup_beta=bl.warmup_baseline.beta, inner=type(bl.baseline).__name__)
        if isinstance(bl.baseline, RolloutBaseline):
            out["bl_alpha"] = bl.baseline.bl_alpha
    if isinstance(bl, ExponentialBaseline):
        out["beta"] = bl.beta
    if isinstance(bl, RolloutBaseline):
        out["bl_alpha"] = bl.bl_alpha
    if isinstance(bl, CriticBaseline):
        out["critic"] = type(bl.critic).__name__
    sc = getattr(model, "advantage_scaler", None)
    out["advantage_scale"] = getattr(sc, "scale", "<absent>")
    return out


def critic_of(model):
    c = getattr(model, "critic", None)
    if c is None:
        c = getattr(getattr(model, "baseline", None), "critic", None)
    return c


def optim_config(model):
    """Class / hyper-parameters of what configure_optimizers() builds (param groups by size, scheduler settings)."""
    res = model.configure_optimizers()
    sched = None
    if isinstance(res, tuple):
        opts, sc = res
        opt = opts[0]
        s = sc["scheduler"]
        sched = {"type": type(s).__name__, "interval": sc.get("interval"), "monitor": sc.get("monitor"),
                 "cfg": {k: (sorted(v.elements()) if hasattr(v, "elements") else v) for k, v in vars(s).items()
                         if k in ("milestones", "gamma", "step_size")}}
    else:
        opt = res
    groups = []
    for g in opt.param_groups:
        cfg = {k: v for k, v in g.items() if k != "params" and isinstance(v, (int, float, bool, str, type(None), tuple, list))}
        cfg.pop("initial_lr", None)
        groups.append({"n_params": sum(int(p.numel()) for p in g["params"]), "cfg": cfg})
    return {"optimizer": type(opt).__name__, "groups": groups, "scheduler": sched}


def behaviour(case, model, td, seed):
    """Greedy solutions of the policy on fresh instances (constructive kinds) and critic values."""
    out = {}
    env = model.env
    constructive = case["family"] == "auto" or case["cls"] in ("PPO", "AMPPO")
    model.policy.eval()
    if constructive:
        kw = {}
        if case["cls"] == "PolyNet":
            kw["num_starts"] = case["hp"]["k"]
        torch.manual_seed(seed)
        with torch.no_grad():
            o = model.policy(env.reset(td.clone()), env, phase="test", decode_type="greedy", return_actions=True, **kw)
        out["actions"], out["reward"] = o["actions"], o["reward"]
    cr = critic_of(model)
    if cr is not None and (constructive and case["cls"] != "L2DPPOModel"):
        cr.eval()
        torch.manual_seed(seed)
        with torch.no_grad():
            out["critic"] = cr(env.reset(td.clone()))
    return out


def _full_state(module):
    """All parameters and buffers by name (read off the module tree, not through state_dict(), which a model may filter)."""
    out = {k: v.detach() for k, v in module.named_parameters()}
    out.update({k: v.detach() for k, v in module.named_buffers()})
    return out


def compare(ctx, case, tag, src, got, td, expect_aux=True, fresh_baseline=False, overrides=None, config=True):
    """`got` was loaded from a checkpoint `src` wrote."""
    C = _c19()
    kind = case["kind"]
    ov = overrides or {}
    ctx.check(type(got) is type(src), f"{tag}|{kind}|type", f"loaded a {type(got).__name__}, saved a {type(src).__name__}")
    sd0, sd1 = _full_state(src), _full_state(got)
    pol0 = {k: v for k, v in sd0.items() if k.startswith("policy.")}
    pol1 = {k: v for k, v in sd1.items() if k.startswith("policy.")}
    diff = C.sd_diff(pol0, pol1)
    if not ctx.check(diff is None, f"{tag}|{kind}|policy_params", f"policy parameters differ after the round trip: {diff}"):
        return False
    aux0 = {k: v for k, v in sd0.items() if not k.startswith("policy.")}
    aux1 = {k: v for k, v in sd1.items() if not k.startswith("policy.")}
    if expect_aux:
        diff = C.sd_diff(aux0, aux1)
        ctx.check(diff is None, f"{tag}|{kind}|aux_params",
                  f"critic / baseline / policy_old parameters differ after the round trip: {diff}")
        if aux0:
            ctx.event("aux_params_compared")
    if fresh_baseline:
        n = len(got.baseline.state_dict())
        ctx.check(n == 0, f"{tag}|{kind}|baseline_not_fresh",
                  f"load_baseline=False: the string-configured baseline of the loaded model carries {n} state tensors")
        ctx.event("fresh_baseline_checked")
    # baseline / scaler configuration
    b0, b1 = baseline_config(src), baseline_config(got)
    if b0 is not None or b1 is not None:
        want = dict(b0 or {})
        if "reward_scale" in ov:
            want["advantage_scale"] = ov["reward_scale"]
        if "baseline" in ov:
            want = dict(b1 or {}, type={"no": "NoBaseline", "exponential": "ExponentialBaseline"}[ov["baseline"]],
                        advantage_scale=want.get("advantage_scale"))
        if fresh_baseline and want.get("critic") is not None:
            want["critic"] = "NoneType"
        ctx.check(want == b1, f"{tag}|{kind}|baseline_config",
                  f"baseline / advantage-scaler configuration differs: expected {want}, loaded {b1}")
    if not config:
        return True
    # behaviour on fresh instances
    if "env" not in ov:
        r0 = behaviour(case, src, td, case["fresh_seed"] % 1000)
        r1 = ctx.guard(behaviour, case, got, td, case["fresh_seed"] % 1000, what=f"behaviour|{kind}")
        for k in r0:
            if k == "critic" and (not expect_aux or k not in r1):
                continue
            ok = k in r1 and r0[k].shape == r1[k].shape and C.same_tensor(r0[k], r1[k])
            ctx.check(ok, f"{tag}|{kind}|{'critic_values' if k == 'critic' else 'greedy_' + k}",
                      f"{k} on fresh instances differ between the saved and the loaded model",
                      {"saved": r0[k], "loaded": r1.get(k)})
            ctx.event(f"behaviour_compared|{k}")
    # plain configuration of module and policy
    skip = set(C.SETUP_ATTRS) | set(ov) | {"CL_num"}  # CL_num: curriculum progress of n_step_PPO (training state)
    d = {k: v for k, v in C.attrs_diff(C.model_config(src), C.model_config(got), optional=C.SETUP_ATTRS).items()
         if k not in skip and k != "data_cfg"}
    ctx.check(not d, f"{tag}|{kind}|model_attrs", f"plain attributes of the loaded model differ (name: [saved, loaded]): {d}")
    d = C.attrs_diff(C.plain_attrs(src.policy), C.plain_attrs(got.policy))
    ctx.check(not d, f"{tag}|{kind}|policy_attrs", f"plain attributes of the loaded policy differ: {d}")
    # data configuration with the overrides applied
    want = dict(src.data_cfg)
    want.update({k: v for k, v in ov.items() if k in want})
    ctx.check(got.data_cfg == want, f"{tag}|{kind}|data_cfg", f"data_cfg {got.data_cfg}, expected {want}")
    # optimizer / scheduler
    o0 = optim_config(src)
    o1 = ctx.guard(optim_config, got, what=f"configure_optimizers|{kind}")
    if "optimizer_kwargs" in ov:
        for g in o0["groups"]:
            g["cfg"].update(ov["optimizer_kwargs"])
    if not expect_aux or "baseline" in ov:
        for o in (o0, o1):  # the set of optimised parameters follows the baseline that is present
            for g in o["groups"]:
                g.pop("n_params")
    ctx.check(o0 == o1, f"{tag}|{kind}|optimizer_config",
              f"configure_optimizers() of the loaded model builds {o1}, the saved model builds {o0}")
    return True


# =========================================================================== execute
def _write_val_files(case, d, k):
    from rl4co.data.utils import save_tensordict_to_npz

    env = make_env(case["envspec"])
    names = []
    for j in range(k):
        torch.manual_seed(case["seed"] % 100003 + j)
        td = env.generator(batch_size=[3 + j])
        arrays = {kk: v for kk, v in td.items()}
        if case["envspec"][0] == "cvrp":  # generate_vrp_data layout: one capacity per row (demand / capacity on load)
            arrays["capacity"] = torch.ones(3 + j)
        from tensordict import TensorDict

        save_tensordict_to_npz(TensorDict(arrays, batch_size=[3 + j]), os.path.join(d, f"val{j}.npz"))
        names.append(f"val{j}.npz")
    return dict(data_dir=d, val_file=names, val_dataloader_names=[f"set{j}" for j in range(k)])


def _write_csv(path, hp):
    with open(path, "w", newline="") as fh:
        w = csv.writer(fh)
        w.writerow(["key", "value"])
        for k, v in hp.items():
            w.writerow([k, v if isinstance(v, str) else repr(v)])


def _load(ctx, cls, path, kind, what, **kw):
    import sys

    from .runner import SkipCase, Violation, repo_frame

    try:
        return cls.load_from_checkpoint(path, map_location="cpu", **kw)
    except (Violation, SkipCase):
        raise
    except Exception as e:  # noqa  any exception on a checkpoint the same class just wrote is a failed round trip
        fr = repo_frame(sys.exc_info()[2]) or "lightning"
        ctx.violation(f"crash|load_from_checkpoint|{kind}|{what}|{type(e).__name__}|{fr}",
                      f"load_from_checkpoint({what}): {type(e).__name__}: {str(e)[:300]}", detail={"frame": fr},
                      abort_known=True)


def exec_ckpt_opts(case, ctx):
    from .runner import HarnessError

    C = _c19()
    if os.environ.get("TORCH_FORCE_NO_WEIGHTS_ONLY_LOAD") != "1":
        raise HarnessError("C19 checkpoint sub-checks need TORCH_FORCE_NO_WEIGHTS_ONLY_LOAD=1 (run through ./check)")
    kind, cls_name, load, hp = case["kind"], case["cls"], case["load"], case["hp"]
    cls = model_class(cls_name)
    refam = cls_name in REINFORCE_FAMILY
    ctx.event(f"opts|kind|{kind}")
    ctx.event(f"opts|route|{load['route']}")
    ctx.event(f"opts|strict|{load['strict']}")
    if refam:
        ctx.event(f"opts|load_baseline|{load.get('load_baseline')}")
    ctx.event(f"opts|optimizer|{hp['optimizer']}|sched={hp.get('lr_scheduler')}")
    ctx.event(f"opts|val_bs|{type(hp.get('val_batch_size')).__name__}")
    ctx.event(f"opts|history|{case['history']}")
    for k in load["overrides"]:
        ctx.event(f"opts|override|{k}")
    with C.scratch() as d:
        files = _write_val_files(case, d, case["val_files"]) if case["val_files"] else None
        extra = {}
        if kind == "polynet_base":
            # a trained POMO-style base model whose checkpoint initialises the PolyNet policy
            base_case = dict(case, cls="POMO", hp=dict(policy_kwargs=hp["policy_kwargs"], num_augment=1, batch_size=4,
                                                       train_data_size=8, val_data_size=3, test_data_size=3,
                                                       optimizer_kwargs={"lr": 1e-2}), pol=None)
            base = build(base_case, case["seed"] ^ 0x1234)
            tb = trainer_for(base_case, d, 1)
            tb.fit(base)
            bpath = os.path.join(d, "base.ckpt")
            tb.save_checkpoint(bpath)
            extra["base_model_checkpoint_path"] = bpath
        model = ctx.guard(build, case, case["seed"], files, extra, what=f"construct|{kind}")
        if kind == "polynet_base":
            bsd = {k[len("policy."):]: v for k, v in base.state_dict().items() if k.startswith("policy.")}
            psd = model.policy.state_dict()
            shared = [k for k in psd if k in bsd and psd[k].shape == bsd[k].shape]
            bad = [k for k in shared if not C.same_tensor(psd[k], bsd[k])]
            ctx.check(len(shared) > 0 and not bad, "opts|polynet_base|base_weights",
                      f"PolyNet(base_model_checkpoint_path=...): {len(shared)} policy tensors exist in the base checkpoint "
                      f"under the same name and shape, {len(bad)} of them were not taken over: {bad[:4]}")
            ctx.event("polynet_base_weights_compared", len(shared))
        init = {k: v.clone() for k, v in model.policy.state_dict().items()}
        epochs = 1
        saver = case.get("saver", "trainer")
        ctx.event(f"opts|saver|{saver}")
        if saver == "trainer":
            trainer = trainer_for(case, d, epochs)
            trainer.fit(model)
            path = os.path.join(d, "model.ckpt")
            ctx.guard(trainer.save_checkpoint, path, what=f"save_checkpoint|{kind}")
        else:
            from lightning.pytorch.callbacks import ModelCheckpoint

            rec = _state_recorder()
            n_fit = 2 if saver == "callback_midfit" else 1
            mc = ModelCheckpoint(dirpath=os.path.join(d, "ck"), filename="ep{epoch}", save_top_k=-1, every_n_epochs=1,
                                 auto_insert_metric_name=False, save_on_train_epoch_end=True)
            trainer = trainer_for(case, d, n_fit, callbacks=[mc, rec])
            ctx.guard(trainer.fit, model, what=f"fit_with_ModelCheckpoint|{kind}")
            path = os.path.join(d, "ck", "ep0.ckpt")
            if not os.path.isfile(path) or 0 not in rec.states:
                raise HarnessError(f"ModelCheckpoint wrote {os.listdir(os.path.join(d, 'ck'))}, recorder saw {list(rec.states)}")
            if saver == "callback_midfit":
                # the reference is the model as it was when the epoch-0 file was written: put the (further trained)
                # original back into that state (every parameter / buffer; the baseline policy is part of it)
                moved = any(not C.same_tensor(v, model.state_dict()[k]) for k, v in rec.states[0].items())
                ctx.event(f"midfit|model_moved_after_the_checkpoint={int(moved)}")
                model.load_state_dict(rec.states[0])
        torch.manual_seed(case["fresh_seed"])
        td = model.env.generator(batch_size=[case["fresh_B"]])
        torch.rand(1 + case["between"])

        # ---- load with the drawn arguments
        lkw = {}
        if load["strict"] is not None:
            lkw["strict"] = load["strict"]
        if refam and load.get("load_baseline") is False:
            lkw["load_baseline"] = False
        ov = dict(load["overrides"])
        okw = dict(ov)
        if "env" in ov:
            okw["env"] = make_env(ov["env"], files)
        fresh_policy = None
        if load["route"] in ("policy_override", "hparams_csv"):
            # a freshly initialised policy of the same architecture: the weights can only come from the state_dict
            donor = build(case, case["seed"] ^ 0x7F4A, files, extra)
            if load["route"] == "policy_override" or case["pol"] is not None:
                fresh_policy = donor.policy
                okw["policy"] = fresh_policy
            if load["route"] == "hparams_csv":
                hpf = os.path.join(d, "hparams.csv")
                _write_csv(hpf, dict(hp, **extra))
                lkw["hparams_file"] = hpf
                okw.setdefault("env", make_env(case["envspec"], files))
        what = f"{load['route']}|{'+'.join(sorted(k + '=' + str(v) for k, v in lkw.items() if k != 'hparams_file')) or 'defaults'}"
        loaded = _load(ctx, cls, path, kind, what, **lkw, **okw)
        if fresh_policy is not None:
            ctx.check(loaded.policy is fresh_policy, f"opts|{kind}|policy_override_ignored",
                      "load_from_checkpoint(policy=<fresh policy>) did not put the given policy object into the model")
            ctx.event("weights_through_state_dict_only")
        elif load["route"] == "hparams_csv":
            ctx.event("weights_through_state_dict_only")
        # ---- oracle
        no_bl = refam and load.get("load_baseline") is False
        # objects that the hyper-parameters carry are restored whatever load_baseline says (A2C stores its baseline)
        string_bl = refam and cls_name != "A2C"
        expect_aux = not (no_bl and string_bl) and "baseline" not in ov
        if not compare(ctx, case, "opts", model, loaded, td, expect_aux=expect_aux,
                       fresh_baseline=no_bl and string_bl and "baseline" not in ov, overrides=ov):
            return
        for k, v in ov.items():
            got = loaded.hparams.get(k, "<absent>")
            if k == "env":
                ctx.check(loaded.env is okw["env"] and got is okw["env"], f"opts|{kind}|override|env",
                          "load_from_checkpoint(env=<other env>): the loaded model does not use the given env")
                ctx.check(loaded.env.generator.num_loc == ov["env"][1], f"opts|{kind}|override|env",
                          f"env override: generator.num_loc is {loaded.env.generator.num_loc}, expected {ov['env'][1]}")
            else:
                ctx.check(got == v, f"opts|{kind}|override|{k}", f"override {k}={v!r} shows as {got!r} in loaded.hparams")
        if case["val_files"]:
            if not hasattr(loaded, "val_dataset"):
                loaded.setup()
            dls = ctx.guard(loaded.val_dataloader, what=f"val_dataloader|{kind}")
            bss = [dl.batch_size for dl in dls] if isinstance(dls, list) else None
            ctx.check(bss == hp["val_batch_size"] and loaded.dataloader_names == [f"set{j}" for j in range(case["val_files"])],
                      f"opts|{kind}|val_batch_size_list",
                      f"val loaders of the loaded model: batch sizes {bss}, names {loaded.dataloader_names}; configured "
                      f"{hp['val_batch_size']}")
            ctx.event("val_batch_size_list_checked")
        trained = any(not C.same_tensor(init[k], v) for k, v in model.policy.state_dict().items())
        if trained:
            ctx.event("policy_trained")
            ctx.nontriv()

        # ---- H1: the loaded model is trained on, saved and loaded again
        if case["history"] != "none":
            before = {k: v.clone() for k, v in loaded.policy.state_dict().items()}
            if case["history"] == "resume":
                t2 = trainer_for(case, d, epochs + 1)
                ctx.guard(t2.fit, loaded, ckpt_path=path, what=f"fit_resume|{kind}")
                steps = -(-hp["train_data_size"] // hp["batch_size"])
                ctx.check(t2.current_epoch == epochs + 1 and t2.global_step == (epochs + 1) * steps,
                          f"opts|{kind}|resume_counters",
                          f"Trainer(max_epochs={epochs + 1}).fit(loaded, ckpt_path=...): epoch {t2.current_epoch}, global "
                          f"step {t2.global_step}; expected {epochs + 1} and {(epochs + 1) * steps}")
                st = [s.get("step") for s in t2.optimizers[0].state.values() if "step" in s]
                if st:
                    ctx.check(all(int(x) == t2.global_step for x in st), f"opts|{kind}|resume_optimizer_state",
                              f"optimizer step counters after the resumed fit: {sorted({int(x) for x in st})}, global "
                              f"step {t2.global_step} (the optimizer state of the checkpoint was not continued)")
                    ctx.event("resume_optimizer_steps_checked")
            else:
                t2 = trainer_for(case, d, 1)
                ctx.guard(t2.fit, loaded, what=f"fit_loaded|{kind}")
            moved = any(not C.same_tensor(before[k], v) for k, v in loaded.policy.state_dict().items())
            ctx.event(f"second_generation|moved={int(moved)}")
            path2 = os.path.join(d, "model2.ckpt")
            ctx.guard(t2.save_checkpoint, path2, what=f"save_checkpoint_2|{kind}")
            torch.rand(2)
            okw2 = {"env": okw["env"]} if "env" in okw and load["route"] == "hparams_csv" else {}
            if load["route"] == "hparams_csv":
                # the second checkpoint stores the hyper-parameters the first load was given: nothing else is needed
                okw2 = {}
            third = _load(ctx, cls, path2, kind, "second_generation")
            td2 = td
            if "env" in ov:
                torch.manual_seed(case["fresh_seed"])
                td2 = loaded.env.generator(batch_size=[case["fresh_B"]])
            ov2 = {}
            compare(ctx, dict(case, fresh_seed=case["fresh_seed"] + 1), "gen2", loaded, third, td2, expect_aux=True,
                    overrides=ov2)
            ctx.event("second_generation_compared")
    ctx.sample({k: case[k] for k in ("kind", "cls", "envspec", "load", "history")})
