"""C18 helpers: JSON distribution specs -> sampler kwargs, configuration strategies per generator,
vectorised validity predicates (one function per generator, all torch-batched so the same code judges a
64-row case and a 10^5-row bulk draw)."""
import inspect
import math
import random
import sys

import hypothesis.strategies as st
import torch

from .runner import SkipCase, repo_frame

SQ2 = math.sqrt(2.0)
INF = float("inf")


# =========================================================================== distributions
class SpySampler:
    """Explicit sampler object (``loc_sampler=`` route): uniform on [lo, hi], remembers what it returned."""

    def __init__(self, lo, hi):
        self.lo, self.hi = float(lo), float(hi)
        self.out = []

    def sample(self, size):
        x = torch.rand(*size) * (self.hi - self.lo) + self.lo
        self.out.append(x)
        return x


BOUNDED01 = ("cluster", "mixed", "gaussian_mixture", "mix_distribution", "mix_multi_distributions")
UNBOUNDED = ("normal", "gaussian", "exponential", "poisson")  # "gaussian": get_sampler's alias of "normal"


def q(lo, hi, den=8):
    """lattice floats k/den in [lo, hi] (JSON safe, exactly representable)"""
    return st.integers(int(math.ceil(lo * den)), int(math.floor(hi * den))).map(lambda k: k / den)


def loc_dist(kinds):
    """strategy of a JSON spec for a coordinate distribution"""
    @st.composite
    def s(draw):
        k = draw(st.sampled_from(kinds))
        d = {"kind": k}
        if k == "const":
            d["c"] = draw(q(0, 1))
        elif k in ("normal", "gaussian"):
            d["mean"], d["std"] = draw(q(0, 1)), draw(q(0.125, 1))
        elif k in ("exponential", "poisson"):
            d["rate"] = draw(q(0.5, 4))
        elif k == "cluster":
            d["n_cluster"] = draw(st.one_of(st.integers(1, 5), st.integers(2, 7)))
        elif k == "mixed":
            d["n_cluster_mix"] = draw(st.integers(1, 3))
        elif k == "gaussian_mixture":
            d["num_modes"], d["cdist"] = draw(st.sampled_from([[0, 0], [1, 1], [3, 10], [5, 30], [7, 50], [2, 1]]))
        elif k == "mix_distribution":
            d["n_cluster"], d["n_cluster_mix"] = draw(st.integers(1, 4)), draw(st.integers(1, 2))
        elif k == "sampler_sub":  # explicit torch sampler on a sub-range (fractions of [min_loc, max_loc])
            a = draw(st.integers(0, 6))
            d["a"], d["b"] = a / 8.0, draw(st.integers(a + 1, 8)) / 8.0
        return d
    return s()


# (the clamping samplers cluster / mixed / mix_distribution carry double weight: their range violations are rare events
#  per node, see the `samplers` sub of C18 which drives the sampler classes directly)
LOC_ALL = ["default"] * 6 + ["uniform_str", "uniform_cls", "callable", "spy", "sampler_sub", "const", "center", "corner",
                             "normal", "gaussian", "exponential", "poisson", "cluster", "mixed", "gaussian_mixture",
                             "mix_distribution", "mix_multi_distributions", "cluster", "mixed", "mix_distribution"]
LOC_BOUNDED = [k for k in LOC_ALL if k not in UNBOUNDED]
DEPOT_ALL = ["none"] * 6 + ["uniform_str", "uniform_cls", "spy", "sampler_sub", "const", "center", "corner", "normal", "gaussian"]
DEPOT_BOUNDED = [k for k in DEPOT_ALL if k not in UNBOUNDED]


def dist_kwargs(d, name, lo, hi, spies):
    """JSON spec -> generator kwargs for variable `name` ('loc' | 'depot' | 'dist')."""
    from torch.distributions import Uniform

    k = d["kind"]
    key = f"{name}_distribution"
    if k in ("default", "none"):
        return {}
    if k == "uniform_str":
        return {key: "uniform"}
    if k == "uniform_cls":
        return {key: Uniform}
    if k == "callable":
        return {key: (lambda **kw: Uniform(low=lo, high=hi))}
    if k == "spy":
        sp = SpySampler(lo, hi)
        spies[name] = sp
        return {f"{name}_sampler": sp}
    if k == "sampler_sub":
        return {f"{name}_sampler": Uniform(low=lo + d["a"] * (hi - lo), high=lo + d["b"] * (hi - lo))}
    if k == "const":
        return {key: float(d["c"])}
    if k in ("center", "corner"):
        return {key: k}
    if k in ("normal", "gaussian"):
        return {key: k, f"{name}_mean": d["mean"], f"{name}_std": d["std"]}
    if k in ("exponential", "poisson"):
        return {key: k, f"{name}_rate": d["rate"]}
    if k == "cluster":
        return {key: "cluster", "n_cluster": d["n_cluster"]}
    if k == "mixed":
        return {key: "mixed", "n_cluster_mix": d["n_cluster_mix"]}
    if k == "gaussian_mixture":
        return {key: "gaussian_mixture", "num_modes": d["num_modes"], "cdist": d["cdist"]}
    if k == "mix_distribution":
        return {key: "mix_distribution", "n_cluster": d["n_cluster"], "n_cluster_mix": d["n_cluster_mix"]}
    if k == "mix_multi_distributions":
        return {key: "mix_multi_distributions"}
    raise ValueError(k)


def dist_range(d, lo, hi):
    """Documented range of the coordinates a spec emits; None = unbounded sampler (no range asserted).
    'center' / 'corner' are named points of the box [min_loc, max_loc] -> the box is the documented range."""
    k = d["kind"]
    if k in UNBOUNDED:
        return None
    if k in BOUNDED01:
        return (0.0, 1.0)
    if k == "const":
        return (d["c"], d["c"])
    if k == "sampler_sub":
        return (lo + d["a"] * (hi - lo), lo + d["b"] * (hi - lo))
    return (lo, hi)


# ---- scalar quantities (CVRP demand, MDCPDP lateness weight, MCP item weights / set sizes): the same option routes
SCALAR_KINDS = ["default"] * 5 + ["uniform_str", "uniform_cls", "callable", "callable_sub", "const", "spy", "sampler_sub"]


def scalar_dist(kinds=SCALAR_KINDS):
    """JSON spec of the distribution of a scalar quantity sampled on [lo, hi] (lo / hi are the generator's own range
    arguments): `<name>_distribution` = "uniform" | Uniform | callable | constant number, or an explicit `<name>_sampler`."""
    @st.composite
    def s(draw):
        k = draw(st.sampled_from(kinds))
        d = {"kind": k}
        if k == "const":
            d["f"] = draw(st.integers(0, 8)) / 8.0  # constant = lo + f * (hi - lo)
            d["as_int"] = draw(st.booleans())      # handed over as python int (rounded down) or float
        elif k in ("sampler_sub", "callable_sub"):
            a = draw(st.integers(0, 6))
            d["a"], d["b"] = a / 8.0, draw(st.integers(a + 1, 8)) / 8.0
        return d
    return s()


def scalar_const(d, lo, hi):
    """constant inside [lo, hi]; as python int when an integer lies in the range (else as float)"""
    c = lo + d["f"] * (hi - lo)
    if d.get("as_int"):
        i = math.floor(c)
        if i < lo:
            i = math.ceil(c)
        if lo <= i <= hi:
            return int(i)
    return float(c)


def scalar_kwargs(d, name, lo, hi, spies):
    from torch.distributions import Uniform

    k = d["kind"]
    key = f"{name}_distribution"
    if k == "default":
        return {}
    if k == "uniform_str":
        return {key: "uniform"}
    if k == "uniform_cls":
        return {key: Uniform}
    if k == "callable":
        return {key: (lambda **kw: Uniform(low=float(lo), high=float(hi), validate_args=False))}
    if k == "callable_sub":
        return {key: (lambda **kw: Uniform(low=lo + d["a"] * (hi - lo), high=lo + d["b"] * (hi - lo), validate_args=False))}
    if k == "const":
        return {key: scalar_const(d, lo, hi)}
    if k == "spy":
        sp = SpySampler(lo, hi)
        spies[name] = sp
        return {f"{name}_sampler": sp}
    if k == "sampler_sub":
        return {f"{name}_sampler": Uniform(low=lo + d["a"] * (hi - lo), high=lo + d["b"] * (hi - lo), validate_args=False)}
    raise ValueError(k)


def scalar_range(d, lo, hi):
    """closed range of the raw samples the spec emits"""
    k = d["kind"]
    if k == "const":
        c = scalar_const(d, lo, hi)
        return (float(c), float(c))
    if k in ("sampler_sub", "callable_sub"):
        return (lo + d["a"] * (hi - lo), lo + d["b"] * (hi - lo))
    return (float(lo), float(hi))


def needs_two_points(d):
    """min-max-scaling samplers are undefined (0/0) for a single point: excluded by construction"""
    return d["kind"] in ("gaussian_mixture", "mix_multi_distributions")


BOXES = [[0.0, 1.0]] * 5 + [[0.25, 0.75], [0.5, 1.0], [-1.0, 1.0], [0.0, 10.0], [2.0, 3.0], [0.75, 1.0]]


def sizes(tier, lo=1, hi=60):
    small = st.integers(lo, min(hi, 12))
    table = st.sampled_from([v for v in (10, 15, 20, 30, 40, 50, 60) if lo <= v <= hi] or [lo])
    return st.one_of(small, small, st.integers(lo, hi), table)


@st.composite
def coord_params(draw, tier, loc_kinds=LOC_ALL, depot_kinds=DEPOT_ALL, with_depot=True, lo=1, hi=60, boxes=BOXES):
    p = {"num_loc": draw(sizes(tier, lo, hi))}
    box = draw(st.sampled_from(boxes))
    p["min_loc"], p["max_loc"] = box
    p["loc"] = draw(loc_dist(loc_kinds))
    if with_depot:
        p["depot"] = draw(loc_dist(depot_kinds))
    return p


def coord_kwargs(p, spies, with_depot=True, size_key="num_loc"):
    lo, hi = p["min_loc"], p["max_loc"]
    kw = {size_key: p["num_loc"], "min_loc": lo, "max_loc": hi}
    kw.update(dist_kwargs(p["loc"], "loc", lo, hi, spies))
    if with_depot and p.get("depot") is not None:
        kw.update(dist_kwargs(p["depot"], "depot", lo, hi, spies))
    return kw


def coord_extent(p, with_depot=True):
    """(lo, hi) hull of every coordinate the configuration can emit, None if unbounded"""
    r = dist_range(p["loc"], p["min_loc"], p["max_loc"])
    if r is None:
        return None
    if with_depot and p.get("depot") is not None and p["depot"]["kind"] != "none":
        r2 = dist_range(p["depot"], p["min_loc"], p["max_loc"])
        if r2 is None:
            return None
        if p["depot"]["kind"] in ("center", "corner"):
            r2 = (min(r2[0], 0.0), r2[1])  # see get_sampler: 'center' = (hi-lo)/2, 'corner' = lo
        r = (min(r[0], r2[0]), max(r[1], r2[1]))
    return r


# =========================================================================== small utilities
class Judge:
    """Collects predicate failures of one generated batch; first failure is reported as the violation."""

    note = None  # e.g. "second call of the same generator object": appended to the message, signatures unchanged

    def __init__(self, ctx, gen, case):
        self.ctx, self.gen, self.case = ctx, gen, case

    def ok(self, cond, what, msg, detail=None, prefix=None):
        if isinstance(cond, torch.Tensor):
            cond = bool(cond.all())
        if not cond:
            sig = f"{prefix or self.gen}|{what}"
            if callable(detail):
                detail = detail()
            return self.ctx.violation(sig, f"{self.gen}: {msg}" + (f" [{self.note}]" if self.note else ""), detail)
        return True

    def shape(self, td, key, shape, dtype=None):
        if key not in td.keys():
            self.ok(False, f"missing_key|{key}", f"key {key!r} missing from generated TensorDict; has {sorted(td.keys())}")
            raise SkipCase()
        v = td[key]
        good = tuple(v.shape) == tuple(shape)
        if not self.ok(good, f"shape|{key}", f"{key} has shape {tuple(v.shape)}, documented/consumed shape {tuple(shape)}"):
            raise SkipCase()
        if dtype == "float":
            self.ok(v.dtype.is_floating_point, f"dtype|{key}", f"{key} dtype {v.dtype}, expected floating point")
        elif dtype == "int":
            self.ok(v.dtype in (torch.int64, torch.int32), f"dtype|{key}", f"{key} dtype {v.dtype}, expected integer")
        elif dtype == "bool":
            self.ok(v.dtype == torch.bool, f"dtype|{key}", f"{key} dtype {v.dtype}, expected bool")
        return v

    def keys(self, td, expected):
        got = set(td.keys())
        self.ok(got == set(expected), "keys", f"keys {sorted(got)} != documented {sorted(expected)}")

    def finite(self, v, key):
        self.ok(torch.isfinite(v), f"nonfinite|{key}", f"{key} contains NaN/inf")

    def within(self, v, lo, hi, key, tol=1e-6, what="out_of_bounds"):
        if v.numel() == 0:
            return
        t = tol * max(1.0, abs(lo), abs(hi))
        good = bool(((v >= lo - t) & (v <= hi + t)).all())
        self.ok(good, f"{what}|{key}", f"{key} outside [{lo}, {hi}]: min {float(v.min()):.7g} max {float(v.max()):.7g}")


def first_bad(mask):
    idx = torch.nonzero(~mask)
    return idx[0].tolist() if idx.numel() else None


def repo_call(ctx, sig_prefix, fn, *a, **kw):
    """Call code under test; an exception raised inside the repository becomes the violation
    '<sig_prefix>|<ExcType>|<frame>' (harness exceptions propagate)."""
    try:
        return fn(*a, **kw)
    except (SkipCase,):
        raise
    except Exception as e:  # noqa
        from .runner import Violation
        if isinstance(e, Violation):
            raise
        fr = repo_frame(sys.exc_info()[2])
        if fr is None:
            raise
        ctx.violation(f"{sig_prefix}|{type(e).__name__}|{fr}", f"{type(e).__name__}: {str(e)[:300]}", {"frame": fr},
                      abort_known=True)


def defaults_of(cls):
    out = {}
    for k, v in inspect.signature(cls.__init__).parameters.items():
        if v.default is not inspect.Parameter.empty:
            out[k] = v.default
    return out


def seed_all(seed):
    torch.manual_seed(seed)
    random.seed(seed)  # Mix_Multi_Distributions draws from python's `random`


def dist0(depot, locs):
    """float64 distances depot [B,2] -> locs [B,n,2]"""
    return (locs.double() - depot.double()[:, None, :]).norm(p=2, dim=-1)


def is_int(x, tol=1e-4):
    return (x - x.round()).abs() <= tol
