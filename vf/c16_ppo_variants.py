"""C16 (continued) — the two further PPO implementations bundled in rl4co.

Targets (trainer-free, recording fakes for optimizers()/manual_backward()/clip_gradients()):

  rl4co.models.rl.ppo.stepwise_ppo.StepwisePPO.shared_step / update through rl4co.models.zoo.l2d.model.L2DPPOModel
      with L2DPolicy4PPO on FJSP / JSSP (stepwise_reward=True, _torchrl_mode=True: the construction of
      tests/test_training.py::test_l2d_ppo).  Per inner step on a mini-batch drawn from the experience buffer
      (stepwise_ppo.py, `update`):
          rho = exp(logp_new(a|s) - logp_old),  A = r - V(s).detach()        r = the stored (scaled) step reward
          L   = -mean(min(rho*A, clip(rho, 1-eps, 1+eps)*A)) + vf_lambda*mean((V - r)^2) - entropy_lambda*mean(H)
      logp_new, V, H are the three outputs of policy.evaluate(mini-batch) (captured with their graphs by a recording
      wrapper); in addition logp_new and H are recomputed in float64 from the actor's captured logits/mask
      (log-softmax of the tanh-clipped masked logits at the stored action, -sum p log p).

  rl4co.models.rl.ppo.n_step_ppo.n_step_PPO.shared_step through rl4co.models.zoo.{dact.DACT, neuopt.NeuOpt, n2s.N2S}
      (default critic construction of those callers) on tsp_kopt (k_max 2 / 3-4) and pdp_ruin_repair.  Per segment of
      n_step environment steps and per inner epoch k (n_step_ppo.py, `shared_step`):
          G_n = V(s_n).detach(),  G_i = r_i + gamma*G_{i+1}                   (n-step return, bootstrapped at s_n)
          rho = exp(ll_i - ll_i^old.detach()),  A = G - V.detach(), optionally (A - mean A)/(std A + 1e-8)
          L   = -mean(min(rho*A, clip(rho)*A)) + vf_lambda*L_V
          L_V = mean((V-G)^2) for k = 0;  mean(max((V-G)^2, (V_old + clip(V-V_old, -eps, eps) - G)^2)) for k > 0,
                V_old = the values of inner epoch 0 (PPO2 value clipping)
      n_step_PPO has no entropy coefficient (the entropy term of the property is absent = coefficient 0).
      ll_i, V_i, V(s_n) are captured from forward hooks on policy / critic (with graphs), r_i from a recording wrapper
      of env.step; the states the library evaluates are tied to the rollout (re-evaluated state/action of step i are
      the stored ones, the bootstrap state is the state after the n-th step, r_i = decrease of cost_bsf).

Asserted for both: loss value == float64 reference; autograd.grad(loss, params) == gradient of the reference surrogate
built on the captured graphs with returns/advantages/old log-probs detached (shared compare_grads of c16.py, the
L2D critic shares the feature extractor with the actor, so an un-detached value changes the actor gradient);
rho == 1 before the first parameter change of an update; stored rewards / old log-probs carry no gradient; number of
inner steps; returned loss.
"""
import copy
import math

import hypothesis.strategies as st
import torch

from .runner import HarnessError, SkipCase, Violation

SEED = st.integers(0, 2 ** 20)
INF = float("inf")


def _c16():
    from .props import c16

    return c16


# =========================================================================== strategies
@st.composite
def stepwise_cases(draw, tier="quick"):
    envname = draw(st.sampled_from(["fjsp", "jssp"]))
    J, M = draw(st.integers(2, 4)), draw(st.integers(2, 3))
    c = dict(env=envname, J=J, M=M)
    if envname == "fjsp":
        c["min_ops"] = draw(st.integers(1, 2))
        c["max_ops"] = draw(st.integers(c["min_ops"], 3))
        c["one2one"] = False
    else:
        c["one2one"] = draw(st.booleans())
        if c["one2one"]:
            c["min_ops"] = c["max_ops"] = M
        else:
            c["min_ops"] = draw(st.integers(1, 2))
            c["max_ops"] = draw(st.integers(c["min_ops"], 3))
    B = draw(st.integers(2, 6))
    # every instance needs at least J*min_ops scheduling steps: the buffer holds >= B*J*min_ops rows, so a mini-batch
    # of at most that many rows always exists (StepwisePPO's sampler drops incomplete mini-batches)
    rows_min = B * J * c["min_ops"]
    # (lower end rows_min/4: at most ~10 mini-batches per inner epoch, each costs four backward passes here)
    lo = max(1, -(-rows_min // 4))
    m = draw(st.one_of(st.integers(lo, rows_min), st.integers(min(max(lo, 3), rows_min), rows_min)))
    E = draw(st.sampled_from([16, 32]))
    c.update(
        B=B, m=m, E=E, L=draw(st.integers(1, 2)), norm=draw(st.sampled_from(["instance", "layer"])),
        spread=draw(st.sampled_from([1.0, 1.5, 2.0])), wseed=draw(SEED),
        max_pt=draw(st.sampled_from([5, 20, 99])),
        ppo_epochs=draw(st.integers(1, 2)),
        clip=draw(st.sampled_from([0.05, 0.1, 0.2, 0.3])),
        vf_lambda=draw(st.sampled_from([0.0, 0.5, 1.0, 2.5])),
        entropy_lambda=draw(st.sampled_from([0.0, 0.01, 0.1])),
        max_grad_norm=draw(st.sampled_from([None, 0.5])),
        # (audit item 26: the running-moment scalers "norm" / "scale", applied to every decoding step's reward in turn)
        reward_scale=draw(st.sampled_from([None, None, 2, 10, "norm", "scale"])),
        opt=draw(st.sampled_from(["noop", "noise", "noise"])),
        sigma=draw(st.sampled_from([0.05, 0.1, 0.2])),
    )
    k = draw(st.integers(1, 2))
    c["steps"] = [dict(dseed=draw(SEED), sseed=draw(SEED)) for _ in range(k)]
    return c


@st.composite
def nstep_cases(draw, tier="quick"):
    model = draw(st.sampled_from(["dact", "neuopt", "n2s"]))
    c = dict(model=model)
    if model == "n2s":
        c["n"] = draw(st.sampled_from([4, 6, 8]))
        c["k_max"] = None
    else:
        c["n"] = draw(st.integers(5, 8))
        c["k_max"] = 2 if model == "dact" else draw(st.integers(3, 4))
    E = draw(st.sampled_from([16, 32]))
    n_step = draw(st.integers(1, 3))
    c.update(
        B=draw(st.integers(2, 6)), E=E, L=draw(st.integers(1, 2)), H=draw(st.sampled_from([1, 2, 4])),
        Hc=draw(st.sampled_from([1, 2] if E == 16 else [1, 2, 4])),  # critic MHA: head_dim must be a multiple of 8
        norm=draw(st.sampled_from(["layer", "instance", "batch"])),
        spread=draw(st.sampled_from([1.0, 1.5, 2.0])), cspread=draw(st.sampled_from([1.0, 2.0, 4.0])),
        wseed=draw(SEED), n_step=n_step, segments=draw(st.integers(1, 2)),
        ppo_epochs=draw(st.integers(1, 3)),
        gamma=draw(st.sampled_from([0.5, 0.9, 0.99, 0.999, 1.0])),
        clip=draw(st.sampled_from([0.05, 0.1, 0.2, 0.3])),
        vf_lambda=draw(st.sampled_from([0.0, 0.5, 1.0, 2.5])),
        normalize_adv=draw(st.booleans()),
        max_grad_norm=draw(st.sampled_from([None, 0.05])),
        cl=draw(st.sampled_from([0, 0, 1, 2])), cl_best=draw(st.booleans()),
        dropout=draw(st.sampled_from([False, False, False, True])),
        opt=draw(st.sampled_from(["noop", "noise", "noise"])),
        sigma=draw(st.sampled_from([0.02, 0.05, 0.1])),
        dseed=draw(SEED), sseed=draw(SEED),
    )
    # audit H5: a second shared_step on the same model, after the (fake) optimiser moved the parameters
    if draw(st.integers(0, 2)) == 0:
        c["second"] = dict(dseed=draw(SEED), sseed=draw(SEED))
    return c


# =========================================================================== shared pieces
def _shield(box, fn):
    """The recording fakes run *inside* rl4co's shared_step, so ctx.guard would see the repository in the traceback of
    any exception they raise.  A failure of the harness code in a fake is parked in `box` and carried out of the guarded
    call with SkipCase (which ctx.guard lets through); _guarded turns it into a HarnessError (exit 2, never a
    VIOLATION)."""
    def wrapped(*a, **k):
        try:
            return fn(*a, **k)
        except (Violation, SkipCase):
            raise
        except Exception as e:  # noqa
            box["exc"] = e
            raise SkipCase()
    return wrapped


def _guarded(ctx, box, fn, *args, what):
    try:
        return ctx.guard(fn, *args, what=what)
    except SkipCase:
        if box.get("exc") is not None:
            raise HarnessError(f"harness failure inside a recording fake: {box['exc']!r}") from box["exc"]
        raise


def _rtol_rho(ll_abs64, batchnorm):
    """float32 noise of a re-evaluated log-probability: 256 ulp of (1 + |ll|), x4 with batch normalisation
    (same policy as the PPO sub-check of c16.py)"""
    c16 = _c16()
    return 256 * c16.EPS32 * (1 + ll_abs64) * (4 if batchnorm else 1)


def _clipped_terms(rho64, A64, eps):
    clipped = rho64.clamp(1 - eps, 1 + eps)
    return clipped, -torch.minimum(rho64 * A64, clipped * A64).mean()


def _value_rtol(c16, normalize, amag64, raw64):
    """relative tolerance of the loss value; standardised advantages lose about eps*cond, cond = max(|G|+|V|)/std"""
    rt = c16.VAL_RTOL
    if normalize:
        rt = c16.VAL_RTOL + 8 * c16.EPS32 * (1 + float(amag64.max() / (raw64.std() + 1e-8)))
    return rt


# =========================================================================== StepwisePPO (L2D on FJSP / JSSP)
def make_sched_env(case):
    from rl4co.envs import FJSPEnv, JSSPEnv

    _c16()._quiet()
    if case["env"] == "fjsp":
        gp = dict(num_jobs=case["J"], num_machines=case["M"], min_ops_per_job=case["min_ops"],
                  max_ops_per_job=case["max_ops"], min_processing_time=1, max_processing_time=case["max_pt"])
        return FJSPEnv(generator_params=gp, stepwise_reward=True, _torchrl_mode=True)
    gp = dict(num_jobs=case["J"], num_machines=case["M"], min_ops_per_job=case["min_ops"],
              max_ops_per_job=case["max_ops"], min_processing_time=1, max_processing_time=case["max_pt"],
              one2one_ma_map=case["one2one"])
    return JSSPEnv(generator_params=gp, stepwise_reward=True, _torchrl_mode=True)


TANH_CLIP = 10.0


def _twin_logp(pol, sub_td):
    """log-prob of the stored actions under a float64 copy of the policy (measures the float32 evaluation error)"""
    twin = copy.deepcopy(pol)
    twin.decoder.actor._forward_hooks.clear()
    twin = twin.double()
    td64 = sub_td.clone().apply(lambda x: x.double() if x.is_floating_point() else x)
    with torch.no_grad():
        lp, _, _ = type(twin).evaluate(twin, td64)
    return lp


def exec_stepwise(case, ctx):
    from rl4co.models.zoo import L2DPPOModel
    from rl4co.models.zoo.l2d.policy import L2DPolicy4PPO

    c16 = _c16()
    env = make_sched_env(case)
    B, eps, m = case["B"], case["clip"], case["m"]
    torch.manual_seed(case["wseed"])
    pol = L2DPolicy4PPO(env_name=case["env"], embed_dim=case["E"], num_encoder_layers=case["L"],
                        normalization=case["norm"], tanh_clipping=TANH_CLIP)
    with torch.no_grad():
        for p in pol.parameters():
            p.mul_(case["spread"])
    c16._assert_deterministic_module(pol)
    pol.train()
    # the model deep-copies the policy (policy_old): parameters must be final before construction
    model = L2DPPOModel(env, pol, clip_range=eps, ppo_epochs=case["ppo_epochs"], mini_batch_size=m,
                        vf_lambda=case["vf_lambda"], entropy_lambda=case["entropy_lambda"],
                        max_grad_norm=case["max_grad_norm"], reward_scale=case["reward_scale"], buffer_size=4096)
    if model.policy is not pol or model.policy_old is pol:
        raise HarnessError("unexpected policy wiring in StepwisePPO")
    named = c16.uniq_named(("critic", pol.critic), ("policy", pol))
    log = []
    opt = c16.FakeOpt([p for _, p in named], case["opt"], case["sigma"], case["wseed"], log)
    sig = "stepwise_ppo"
    c16._CUR["sig"] = sig
    cap = {"eval": None, "actor": None}
    state = {"n": 0, "upd_steps": 0, "rows": 0, "losses": [], "nontriv": False, "perturbed": False}
    str_scale = isinstance(case["reward_scale"], str)
    rscale = 1.0 if case["reward_scale"] is None or str_scale else float(case["reward_scale"])
    # reference model of the running-moment scaler: float64 two-pass moments over every step reward seen so far, in
    # the order of the decoding steps (the scaler is updated with a step's rewards before it transforms them)
    ref_scaler = c16.RefScaler(case["reward_scale"]) if str_scale else None
    if str_scale:
        sig = f"stepwise_ppo|scale={case['reward_scale']}"
        c16._CUR["sig"] = sig

    # ---- recorders (installed after construction: policy_old stays untouched)
    orig_eval = pol.evaluate

    def eval_spy(td):
        out = orig_eval(td)
        cap["eval"] = (td, out)
        return out

    box = {}
    pol.evaluate = eval_spy
    pol.decoder.actor.register_forward_hook(
        _shield(box, lambda mod, args, out: cap.__setitem__("actor", (out[0].detach().clone(), out[1].clone()))))
    orig_extend = model.rb.extend

    def extend_spy(td, *a, **k):
        state["rows"] += td.shape[0]
        ctx.check(not td["reward"].requires_grad and not td["logprobs"].requires_grad, f"old_requires_grad|{sig}",
                  "rewards / old log-probs entering the experience buffer carry a gradient")
        if str_scale:
            raw = -(td["next", "lbs"].double().max(1).values - td["lbs"].double().max(1).values)
            want = ref_scaler(raw, float(raw.abs().max()))
            got = td["reward"].detach().double().reshape(-1)
            if ref_scaler.cond > 200:
                ctx.exclude("scaler_ill_conditioned")
            else:
                cond = ref_scaler.cond
                loose = 2.0 * (1.0 + cond) + c16.EPS32 * (1.0 + cond) ** 2 / c16.VAL_RTOL
                # (the running mean carries a float32 error relative to the largest step reward of the whole history)
                hist_max = float(torch.cat(ref_scaler.seen).abs().max())
                tol = c16.VAL_RTOL * loose * (want.abs() + ref_scaler.amp * hist_max) + 1e-9
                ctx.check(got.shape == want.shape and bool(((got - want).abs() <= tol).all()), f"scaled_step_reward|{sig}",
                          f"stored step reward is not the {case['reward_scale']!r}-scaled step reward under the running "
                          f"mean / std of all {len(torch.cat(ref_scaler.seen))} step rewards seen so far",
                          {"got": got, "want": want, "raw": raw})
                ctx.event("scaled_step_reward_checked")
        return orig_extend(td, *a, **k)

    model.rb.extend = _shield(box, extend_spy)

    def manual_backward(loss, *a, **k):
        log.append("backward")
        i = state["n"]
        state["n"] += 1
        state["upd_steps"] += 1
        if cap["eval"] is None or cap["actor"] is None:
            raise HarnessError("no evaluate() call captured for this inner step")
        sub_td, (lp, V, H) = cap["eval"]
        logits, mask = cap["actor"]
        cap["eval"] = cap["actor"] = None
        R, lp_old, act = sub_td["reward"], sub_td["logprobs"], sub_td["action"]
        b = lp.shape[0]
        what = f"inner step {i} (mini-batch of {b})"
        ctx.check(not R.requires_grad and not lp_old.requires_grad, f"old_requires_grad|{sig}",
                  "stored rewards / old log-probs carry a gradient")
        ctx.check(b == m and tuple(lp.shape) == (b,) and tuple(V.shape) == (b, 1) and tuple(H.shape) == (b,)
                  and R.numel() == b and tuple(lp_old.shape) == (b,), f"shapes|{sig}",
                  f"unexpected shapes logp {tuple(lp.shape)} V {tuple(V.shape)} H {tuple(H.shape)} R {tuple(R.shape)} "
                  f"old {tuple(lp_old.shape)} for mini_batch_size {m}")
        ctx.check(lp.requires_grad and V.requires_grad, f"ll_no_grad|{sig}", "nothing to train: evaluate() outputs "
                  "carry no gradient")
        R64 = R.detach().double().reshape(b)
        # rows travel together through the sampler: the stored reward is the documented step reward of the row's own
        # transition, -(max lower bound after - max lower bound before), divided by the integer reward_scale
        if not str_scale:  # (running-moment scalers: checked in decoding order when the rows enter the buffer)
            r_row = -(sub_td["next", "lbs"].double().max(1).values - sub_td["lbs"].double().max(1).values) / rscale
            ctx.check(bool(((R64 - r_row).abs() <= 1e-4 * (1 + r_row.abs())).all()), f"reward_rows|{sig}",
                      "mini-batch reward is not the step reward of the row's own transition", {"R": R64, "ref": r_row})
        # the evaluated quantities are log-probability of the stored action and entropy of the masked policy
        z = (torch.tanh(logits.double()) * TANH_CLIP).masked_fill(~mask, -INF)
        logp_all = torch.log_softmax(z, -1)
        lp_ref = logp_all.gather(1, act.reshape(b, 1)).squeeze(1)
        H_ref = -torch.where(mask, logp_all.exp() * logp_all, torch.zeros_like(logp_all)).sum(-1)
        lp64, V64, H64 = lp.detach().double(), V.detach().double().reshape(b), H.detach().double()
        ctx.check(bool(((lp64 - lp_ref).abs() <= 2e-5 * (1 + lp_ref.abs())).all()), f"eval_logprob|{sig}",
                  f"{what}: evaluate() log-prob is not log-softmax(masked clipped logits)[stored action]",
                  {"lp": lp64, "ref": lp_ref})
        ctx.check(bool(((H64 - H_ref).abs() <= 2e-5 * (1 + H_ref.abs())).all()), f"eval_entropy|{sig}",
                  f"{what}: evaluate() entropy is not the entropy of the masked action distribution",
                  {"H": H64, "ref": H_ref})
        if bool((mask.sum(-1) > 1).any()):
            ctx.event("choice_rows")
        old64 = lp_old.double()
        rho64 = torch.exp(lp64 - old64)
        if not state["perturbed"]:
            # before the first parameter change of this update the evaluated policy is the behaviour policy
            # (policy_old is a copy made at construction and re-synchronised at the end of every update).
            # The behaviour pass ran on the whole batch, this pass on a shuffled mini-batch: only float32 rounding may
            # differ.  Instance normalisation over very short sequences (2 machines) can amplify that rounding by up to
            # 1/sqrt(1e-5); the conditioning is *measured* with a float64 twin of the policy on the same rows and a
            # mini-batch whose own float32 evaluation error exceeds a quarter of the tolerance is excluded, not
            # compared.
            tol = _rtol_rho(lp64.abs(), False)
            err32 = (lp64 - _twin_logp(pol, sub_td)).abs()
            if bool((err32 > tol / 4).any()):
                ctx.exclude("ratio_ill_conditioned")
                tol = None
        if not state["perturbed"] and tol is not None:
            c16._cal("ratio_stepwise_" + case["norm"] + f"_M{case['M']}", float(((rho64 - 1).abs() / tol).max()))
            ctx.check(bool(((rho64 - 1).abs() <= tol).all()), f"ratio_not_one|{sig}",
                      f"{what}: probability ratio != 1 before any parameter change of the update: {rho64.tolist()}")
            ctx.event("ratio_one_checked" + ("_later_update" if state["updates"] > 0 else ""))
        A64 = R64 - V64
        amag = R64.abs() + V64.abs()
        clipped, surr64 = _clipped_terms(rho64, A64, eps)
        vl64 = ((V64 - R64) ** 2).mean()
        ent64 = H64.mean()
        tot64 = surr64 + case["vf_lambda"] * vl64 - case["entropy_lambda"] * ent64
        scale = float((torch.maximum(rho64, clipped) * amag *
                       (1 + (lp64.abs() + old64.abs()) * c16.EPS32 / c16.VAL_RTOL)).mean()) \
            + case["vf_lambda"] * float((amag ** 2).mean()) + case["entropy_lambda"] * float(ent64.abs())
        if bool(((rho64 * A64) > (clipped * A64)).any()):
            ctx.event("clip_active")
        if bool((rho64 != clipped).any()):
            ctx.event("ratio_outside_range")
        detail = {"step": i, "rho": rho64, "A": A64, "V": V64, "R": R64, "H": H64, "loss": loss, "ref": tot64}
        ctx.check(torch.is_tensor(loss) and loss.dim() == 0, f"loss_shape|{sig}", "loss is not a scalar tensor")
        ctx.check(c16.close(loss, tot64, scale), f"loss_value|{sig}",
                  f"{what}: loss {float(loss):.8g} != clipped surrogate + vf_lambda*MSE - entropy_lambda*H = "
                  f"{float(tot64):.8g} (surrogate {float(surr64):.6g}, value {float(vl64):.6g}, "
                  f"entropy {float(ent64):.6g})", detail)
        Vs, Rf = V.reshape(b), R.detach().reshape(b)

        def ref_fn(pert):
            # pert: last-bit noise on the advantages *and* on the value target (the float32 difference V - r feeding
            # the value head's upstream gradient rounds differently in the two graphs; a backward pass through instance
            # normalisation amplifies such last-bit differences, compare_grads measures that amplification)
            A = (A64 if pert is None else A64 + pert).float()
            Rt = Rf if pert is None else (R64 + pert).float()
            rho = torch.exp(lp - lp_old)
            return -torch.minimum(rho * A, rho.clamp(1 - eps, 1 + eps) * A).mean() \
                + case["vf_lambda"] * ((Vs - Rt) ** 2).mean() - case["entropy_lambda"] * H.mean()

        c16.compare_grads(ctx, named, loss, ref_fn, c16.ulp_noise(A64, amag), sig, what)
        if b >= 3 and float(R64.std()) > 1e-6:
            state["nontriv"] = True
        state["losses"].append(loss.detach().clone())
        loss.backward()

    def clip_gradients(o, gradient_clip_val=None, gradient_clip_algorithm=None, **k):
        log.append(("clip", gradient_clip_val, gradient_clip_algorithm))

    class Opt:  # thin wrapper: remembers that parameters moved within the current update
        def zero_grad(self, *a, **k):
            opt.zero_grad()

        def step(self, *a, **k):
            opt.step()
            if opt.mode == "noise":
                state["perturbed"] = True

    wrapped = Opt()
    model.optimizers = lambda *a, **k: wrapped
    model.manual_backward = _shield(box, manual_backward)
    model.clip_gradients = clip_gradients

    state["updates"] = 0
    for k, stp in enumerate(case["steps"]):
        torch.manual_seed(stp["dseed"])
        batch = env.generator(B)
        state.update(upd_steps=0, rows=0, perturbed=False)
        state["losses"] = []
        torch.manual_seed(stp["sseed"])
        res = _guarded(ctx, box, model.shared_step, batch.clone(), k, "train", what="shared_step|stepwise_ppo")
        N = state["rows"]
        if N % B != 0 or N < B * case["J"] * case["min_ops"]:
            raise HarnessError(f"{N} buffered rows for batch {B}")
        want = case["ppo_epochs"] * (N // m)
        ctx.check(state["upd_steps"] == want, f"inner_steps|{sig}",
                  f"{state['upd_steps']} inner steps for ppo_epochs {case['ppo_epochs']}, {N} buffered rows, "
                  f"mini-batch {m}")
        got = res["loss"]
        ok = torch.is_tensor(got) and state["losses"] and got.numel() in (1, len(state["losses"]))
        if ok:
            flat = got.detach().reshape(-1)
            ref = torch.stack(state["losses"])
            ok = bool((flat == (ref if flat.numel() == ref.numel() else ref[-1:])).all())
        ctx.check(ok, f"returned_loss|{sig}", "shared_step does not return the inner losses (all of them or the last)")
        ctx.check(len(model.rb) == 0, f"buffer_not_emptied|{sig}",
                  f"{len(model.rb)} rows left in the experience buffer after the update (update_timestep=1)")
        state["updates"] += 1
        ctx.event(f"minibatches={'1' if N // m == 1 else 'many'}")
    ctx.event(f"env={case['env']}")
    ctx.event(f"reward_scale={case['reward_scale'] if str_scale or case['reward_scale'] is None else 'int'}")
    ctx.event(f"opt={case['opt']}")
    ctx.event(f"entropy={'on' if case['entropy_lambda'] else 'off'}")
    if state["nontriv"]:
        ctx.nontriv()
    ctx.sample({k_: case[k_] for k_ in ("env", "J", "M", "B", "m", "E", "L", "norm", "ppo_epochs", "clip", "vf_lambda",
                                        "entropy_lambda", "reward_scale", "opt")} | {"steps": len(case["steps"])})


# =========================================================================== n_step_PPO (DACT / NeuOpt / N2S)
def make_improvement_model(case):
    from rl4co.envs import PDPRuinRepairEnv, TSPkoptEnv
    from rl4co.models.zoo import DACT, N2S, NeuOpt

    _c16()._quiet()
    pk = dict(embed_dim=case["E"], num_encoder_layers=case["L"], num_heads=case["H"], normalization=case["norm"],
              feedforward_hidden=case["E"])
    ck = dict(num_heads=case["Hc"], feedforward_hidden=case["E"], normalization=case["norm"])
    kw = dict(clip_range=case["clip"], ppo_epochs=case["ppo_epochs"], vf_lambda=case["vf_lambda"],
              normalize_adv=case["normalize_adv"], max_grad_norm=case["max_grad_norm"], gamma=case["gamma"],
              n_step=case["n_step"], T_train=case["n_step"] * case["segments"], CL_best=case["cl_best"])
    if case["model"] == "n2s":
        env = PDPRuinRepairEnv(generator_params=dict(num_loc=case["n"]))
        cls = N2S
    else:
        env = TSPkoptEnv(generator_params=dict(num_loc=case["n"]), k_max=case["k_max"])
        cls = DACT if case["model"] == "dact" else NeuOpt
    torch.manual_seed(case["wseed"])
    model = cls(env, policy_kwargs=pk, critic_kwargs=ck, **kw)
    return env, model


def _snap(td):
    return {"rec": td["rec_current"].clone(), "bsf": td["cost_bsf"].clone()}


def exec_nstep(case, ctx):
    c16 = _c16()
    env, model = make_improvement_model(case)
    pol, critic = model.policy, model.critic
    # the bundled decoders / value heads hard-code small dropout rates: switched off (stated assumption), so that a
    # re-evaluation of a stored state is a deterministic function of the parameters
    # (rl4co.models.nn.mlp.MLP keeps its Dropout layers in a plain python list: they are not sub-modules, invisible to
    # .modules() and to .eval()).  With case["dropout"] the bundled rates stay on: everything asserted on the captured
    # tensors still holds, only the re-evaluation ratio is then noisy by design and not asserted.
    if not case["dropout"]:
        for mod in list(pol.modules()) + list(critic.modules()):
            if isinstance(mod, torch.nn.Dropout):
                mod.p = 0.0
            for d in getattr(mod, "dropouts", []):
                d.p = 0.0
    with torch.no_grad():
        for p in pol.parameters():
            p.mul_(case["spread"])
        for p in critic.parameters():  # larger values: value clipping (|V - V_old| > clip_range) gets reachable
            p.mul_(case["cspread"])
    if not case["dropout"]:
        c16._assert_deterministic_module(pol)
        c16._assert_deterministic_module(critic)
        for mod in list(pol.modules()) + list(critic.modules()):
            if any(d.p > 0 for d in getattr(mod, "dropouts", [])):
                raise HarnessError("active dropout left")
    pol.train()
    critic.train()
    model.CL_num = float(case["cl"])
    B, eps, n, gamma = case["B"], case["clip"], case["n_step"], case["gamma"]
    named = c16.uniq_named(("policy", pol), ("critic", critic))
    n_pol = sum(1 for nm, _ in named if nm.startswith("policy."))
    if n_pol == 0 or n_pol == len(named):
        raise HarnessError("policy / critic parameters not separated")
    oplog = []
    opt = c16.FakeOpt([p for _, p in named], case["opt"], case["sigma"], case["wseed"], oplog)
    sig = f"nstep_ppo|{'norm' if case['normalize_adv'] else 'raw'}"
    c16._CUR["sig"] = sig
    events = []
    state = {"n": 0, "mark": 0, "seg": None, "last": None, "nontriv": False, "segments": 0}

    def pol_hook(mod, args, kwargs, out):
        kind = "embed" if kwargs.get("only_return_embed") else ("eval" if kwargs.get("actions") is not None else "roll")
        events.append(("pol", kind, _snap(args[0]), out, kwargs))

    def crit_hook(mod, args, out):
        events.append(("crit", args[0], args[1].detach().clone(), out))

    box = {}
    pol.register_forward_hook(_shield(box, pol_hook), with_kwargs=True)
    critic.register_forward_hook(_shield(box, crit_hook))
    orig_step = env.step

    def step_spy(td):
        out = orig_step(td)
        nxt = out["next"]
        events.append(("step", nxt["reward"], _snap(nxt)))
        return out

    env.step = step_spy

    def same(a, b):
        return a.shape == b.shape and bool((a == b).all())

    def manual_backward(loss, *a, **k):
        oplog.append("backward")
        i = state["n"]
        state["n"] += 1
        tail = events[state["mark"]:]
        state["mark"] = len(events)
        pols = [e for e in tail if e[0] == "pol"][-(n + 1):]
        crits = [e for e in tail if e[0] == "crit"][-(n + 1):]
        kinds = [e[1] for e in pols]
        if len(pols) != n + 1 or len(crits) != n + 1 or kinds[-1] != "embed" or len(set(kinds[:-1])) != 1:
            raise HarnessError(f"unexpected call pattern before inner step {i}: {kinds}, {len(crits)} critic calls")
        first = kinds[0] == "roll"
        if not first and kinds[0] != "eval":
            raise HarnessError(f"unexpected call pattern before inner step {i}: {kinds}")
        outs = [e[3] for e in pols[:n]]
        snaps = [e[2] for e in pols]
        ok_shapes = all(tuple(o["log_likelihood"].shape) == (B, 1) for o in outs) and \
            all(tuple(e[3].shape) == (B, 1) for e in crits)
        ctx.check(ok_shapes, f"shapes|{sig}", "log-likelihood / value are not [batch, 1] per step",
                  {"ll": [tuple(o["log_likelihood"].shape) for o in outs], "V": [tuple(e[3].shape) for e in crits]})
        if not ok_shapes:
            return loss.backward()
        # every value is the critic's output on the (detached) embedding and best-so-far cost of the very state the
        # policy was evaluated on
        for s in range(n + 1):
            emb = pols[s][3]["embeds"]
            ctx.check(crits[s][1] is emb or same(crits[s][1], emb), f"value_state|{sig}",
                      f"inner step {i}: critic call {s} is not fed the embedding of policy call {s}")
            ctx.check(not crits[s][1].requires_grad, f"embeds_require_grad|{sig}",
                      "the critic input embedding carries a gradient into the policy")
            ctx.check(same(crits[s][2].reshape(-1), snaps[s]["bsf"].reshape(-1)), f"value_state|{sig}",
                      f"inner step {i}: critic call {s} is not fed the best-so-far cost of its state")
        if first:
            steps = [e for e in tail if e[0] == "step"][-n:]
            if len(steps) != n:
                raise HarnessError(f"{len(steps)} env steps recorded for a rollout segment of {n}")
            seg = dict(k=0,
                       old_ll=torch.stack([o["log_likelihood"].detach().reshape(B) for o in outs]).clone(),
                       r=[e[1] for e in steps], states=snaps[:n], post=[e[2] for e in steps],
                       actions=[o["actions"].clone() for o in outs])
            state["seg"] = seg
            state["segments"] += 1
            for s in range(n):
                r = seg["r"][s]
                ctx.check(not r.requires_grad, f"reward_requires_grad|{sig}", "step reward carries a gradient")
                # documented reward: immediate reduction of the best-so-far cost (>= 0)
                dec = seg["states"][s]["bsf"].double() - seg["post"][s]["bsf"].double()
                ctx.check(bool(((r.double().reshape(B) - dec).abs() <= 1e-5).all()) and bool((r >= 0).all()),
                          f"reward_rows|{sig}", f"step {s}: reward is not the decrease of the best-so-far cost",
                          {"r": r, "decrease": dec})
                nxt = snaps[s + 1]  # next rollout state, resp. the bootstrap state after the n-th step
                ctx.check(same(nxt["rec"], seg["post"][s]["rec"]) and same(nxt["bsf"], seg["post"][s]["bsf"]),
                          f"rollout_state|{sig}", f"policy call {s + 1} of the segment is not evaluated on the state "
                          f"reached by step {s}")
        else:
            seg = state["seg"]
            if seg is None:
                raise HarnessError("re-evaluation before any rollout segment")
            seg["k"] += 1
            for s in range(n):
                st0 = seg["states"][s]
                ctx.check(same(snaps[s]["rec"], st0["rec"]) and same(snaps[s]["bsf"], st0["bsf"])
                          and same(pols[s][4]["actions"], seg["actions"][s]), f"reeval_state|{sig}",
                          f"inner epoch {seg['k']}: step {s} is not re-evaluated on its stored state / action")
            ctx.check(same(snaps[n]["rec"], seg["post"][-1]["rec"]), f"bootstrap_state|{sig}",
                      f"inner epoch {seg['k']}: the bootstrap value is not taken at the state after the last step")
        kk = seg["k"]
        what = f"inner step {i} (segment {state['segments'] - 1}, inner epoch {kk}, {n}x{B} rows)"
        ll = torch.stack([o["log_likelihood"].reshape(B) for o in outs])  # [n, B] with graph
        V = torch.stack([e[3].reshape(B) for e in crits[:n]])  # [n, B] with graph
        ctx.check(ll.requires_grad, f"ll_no_grad|{sig}", "log-likelihood carries no gradient (nothing to train)")
        ll64, V64, old64 = ll.detach().double(), V.detach().double(), seg["old_ll"].double()
        r64 = torch.stack([r.detach().double().reshape(B) for r in seg["r"]])
        G = crits[n][3].detach().double().reshape(B)
        Gs = [None] * n
        for s in reversed(range(n)):
            G = r64[s] + gamma * G
            Gs[s] = G
        G64 = torch.stack(Gs)
        if kk == 0:
            seg["V_old"] = V64.clone()
        Vold64 = seg["V_old"]
        rho64 = torch.exp(ll64 - old64)
        # (parameters as they were when this segment was rolled out: inner epoch 0 always, later inner epochs only with
        #  the no-op optimiser; a second shared_step starts from moved parameters and must again see rho == 1 at k = 0)
        perturbed = opt.mode == "noise" and opt.n > 0
        if kk == 0 or not (perturbed or case["dropout"]):
            tol = _rtol_rho(ll64.abs(), case["norm"] == "batch")
            c16._cal("ratio_nstep", float(((rho64 - 1).abs() / tol).max()))
            ctx.check(bool(((rho64 - 1).abs() <= tol).all()), f"ratio_not_one|{sig}",
                      f"{what}: probability ratio != 1 although the parameters have not changed since the rollout: "
                      f"{rho64.reshape(-1).tolist()}")
            ctx.event("ratio_one_checked" + ("_reeval" if kk > 0 else ""))
        raw = G64 - V64
        amag = G64.abs() + V64.abs()
        A64 = raw
        if case["normalize_adv"]:
            A64 = (raw - raw.mean()) / (raw.std() + 1e-8)
        clipped, surr64 = _clipped_terms(rho64, A64, eps)
        if kk == 0:
            vl64 = ((V64 - G64) ** 2).mean()
        else:
            vclip = Vold64 + (V64 - Vold64).clamp(-eps, eps)
            vl64 = torch.maximum((V64 - G64) ** 2, (vclip - G64) ** 2).mean()
            if bool(((vclip - G64) ** 2 > (V64 - G64) ** 2).any()):
                ctx.event("value_clip_active")
        tot64 = surr64 + case["vf_lambda"] * vl64
        rt = _value_rtol(c16, case["normalize_adv"], amag, raw)
        amp = float(A64.abs().max() / raw.abs().max().clamp_min(1e-12))
        # magnitude entering the float32 rounding of an advantage: |G|+|V| (raw) resp. the standardised value itself
        # (its conditioning is carried by rt)
        abound = A64.abs() if case["normalize_adv"] else amag
        scale = float((torch.maximum(rho64, clipped) * abound *
                       (1 + (ll64.abs() + old64.abs()) * c16.EPS32 / c16.VAL_RTOL)).mean()) \
            + case["vf_lambda"] * float(((amag + Vold64.abs()) ** 2).mean())
        if bool(((rho64 * A64) > (clipped * A64)).any()):
            ctx.event("clip_active")
        if bool((rho64 != clipped).any()):
            ctx.event("ratio_outside_range")
        if bool((r64 != 0).any()):
            ctx.event("reward_nonzero")
        detail = {"step": i, "k": kk, "rho": rho64, "A": A64, "V": V64, "G": G64, "r": r64, "loss": loss, "ref": tot64}
        ctx.check(torch.is_tensor(loss) and loss.dim() == 0, f"loss_shape|{sig}", "loss is not a scalar tensor")
        ctx.check(c16.close(loss, tot64, scale, rt), f"loss_value|{sig}",
                  f"{what}: loss {float(loss):.8g} != clipped surrogate + vf_lambda*value loss = {float(tot64):.8g} "
                  f"(surrogate {float(surr64):.6g}, value {float(vl64):.6g})", detail)
        Gf, Voldf, oldf = G64.float(), Vold64.float(), seg["old_ll"]

        pert_G = c16.ulp_noise(G64, amag)

        def ref_fn(pert):
            # pert: last-bit noise on the advantages and (pert_G) on the value target G, which the library accumulates
            # in float32 and this reference in float64
            A = (A64 if pert is None else A64 + pert).float()
            Gt = Gf if pert is None else (G64 + pert_G).float()
            rho = torch.exp(ll - oldf)
            ref = -torch.minimum(rho * A, rho.clamp(1 - eps, 1 + eps) * A).mean()
            if kk == 0:
                v = ((V - Gt) ** 2).mean()
            else:
                v = torch.maximum((V - Gt) ** 2, (Voldf + (V - Voldf).clamp(-eps, eps) - Gt) ** 2).mean()
            return ref + case["vf_lambda"] * v

        loose = max(1.0, rt / c16.VAL_RTOL)
        c16.compare_grads(ctx, named, loss, ref_fn, c16.ulp_noise(A64, amag * amp, loose), sig, what, loose)
        if n * B >= 3 and float(G64.std()) > 1e-6:
            state["nontriv"] = True
        state["last"] = loss
        loss.backward()

    def clip_gradients(o, gradient_clip_val=None, gradient_clip_algorithm=None, **k):
        oplog.append(("clip", gradient_clip_val, gradient_clip_algorithm))

    model.optimizers = lambda *a, **k: opt
    model.manual_backward = _shield(box, manual_backward)
    model.clip_gradients = clip_gradients

    for k, stp in enumerate([case] + ([case["second"]] if case.get("second") else [])):
        n0, seg0 = state["n"], state["segments"]
        state["last"] = None
        torch.manual_seed(stp["dseed"])
        batch = env.generator(B)
        torch.manual_seed(stp["sseed"])
        res = _guarded(ctx, box, model.shared_step, batch.clone(), k, "train",
                       what=f"shared_step|nstep_ppo|{case['model']}" + ("|second" if k else ""))
        ctx.check(state["n"] - n0 == case["segments"] * case["ppo_epochs"] and state["segments"] - seg0 == case["segments"],
                  f"inner_steps|{sig}", f"{state['n'] - n0} inner steps / {state['segments'] - seg0} rollout segments for "
                  f"T_train {n * case['segments']}, n_step {n}, ppo_epochs {case['ppo_epochs']} (shared_step #{k})")
        ctx.check(state["last"] is not None and torch.is_tensor(res["loss"]) and
                  float(res["loss"]) == float(state["last"]), f"returned_loss|{sig}",
                  "shared_step does not return the last inner loss")
        if k:
            ctx.event("second_shared_step" + ("_after_parameter_change" if opt.mode == "noise" else ""))
    ctx.event(f"model={case['model']}")
    ctx.event(f"opt={case['opt']}")
    ctx.event(f"n_step={'1' if n == 1 else '>=2'}")
    ctx.event(f"gamma={'1' if gamma == 1.0 else '<1'}")
    ctx.event(f"dropout={'bundled' if case['dropout'] else 'off'}")
    if state["nontriv"]:
        ctx.nontriv()
    ctx.sample({k_: case[k_] for k_ in ("model", "n", "B", "E", "L", "H", "norm", "n_step", "segments", "ppo_epochs",
                                        "gamma", "clip", "vf_lambda", "normalize_adv", "cl", "cl_best", "dropout",
                                        "opt")})


# =========================================================================== minimisers
def minimize_stepwise(case):
    steps = case["steps"]
    if len(steps) > 1:
        yield {**case, "steps": steps[:1]}
        yield {**case, "steps": steps[1:]}
    for key, val in (("ppo_epochs", 1), ("opt", "noop"), ("entropy_lambda", 0.0), ("vf_lambda", 0.0),
                     ("reward_scale", None), ("spread", 1.0), ("L", 1), ("E", 16), ("max_grad_norm", None),
                     ("norm", "instance")):
        if case[key] != val:
            yield {**case, key: val}
    if case["B"] > 2:
        c = {**case, "B": case["B"] - 1}
        c["m"] = min(c["m"], c["B"] * c["J"] * c["min_ops"])
        yield c
    if case["J"] > 2:
        c = {**case, "J": case["J"] - 1}
        c["m"] = min(c["m"], c["B"] * c["J"] * c["min_ops"])
        yield c


def minimize_nstep(case):
    for key, val in (("segments", 1), ("ppo_epochs", 1), ("n_step", 1), ("opt", "noop"), ("cl", 0), ("cl_best", False),
                     ("normalize_adv", False), ("dropout", False), ("vf_lambda", 0.0), ("gamma", 1.0), ("spread", 1.0),
                     ("cspread", 1.0),
                     ("L", 1), ("H", 1), ("Hc", 1), ("norm", "layer"), ("max_grad_norm", None), ("B", 2)):
        if case[key] != val:
            yield {**case, key: val}
    if case["E"] > 16 and case["Hc"] <= 2:
        yield {**case, "E": 16}
    if case["ppo_epochs"] > 2:
        yield {**case, "ppo_epochs": 2}
    if case["model"] != "n2s" and case["n"] > 5:
        yield {**case, "n": 5}
