"""Known-findings file: loading and signature matching.

known_findings.json is a list of entries
    {"id": "F15", "property": "C04", "status": "open" | "fixed",
     "signature": "<fnmatch pattern over violation signatures>",
     "what": "<one line: the specific input / call site / history that fails>",
     "line": "fixed: property=C04 <commit> <what failed>"      (fixed entries only)}

Only *open* entries suppress anything, and only violations whose signature matches
the entry's pattern for that property.  The file is never written at run time.
"""
import fnmatch
import json
import os

HERE = os.path.dirname(os.path.dirname(os.path.abspath(__file__)))
PATH = os.path.join(HERE, "known_findings.json")


class Known:
    def __init__(self, path=PATH):
        self.entries = []
        if os.path.exists(path):
            with open(path) as f:
                self.entries = json.load(f)
        for e in self.entries:
            assert e["status"] in ("open", "fixed"), e
            assert "property" in e and "signature" in e and "what" in e, e

    def match(self, prop, sig):
        """Return the open entry matching (prop, sig), else None."""
        for e in self.entries:
            if e["status"] != "open":
                continue
            props = e["property"] if isinstance(e["property"], list) else [e["property"]]
            if prop not in props:
                continue
            pats = e["signature"] if isinstance(e["signature"], list) else [e["signature"]]
            for p in pats:
                if fnmatch.fnmatchcase(sig, p):
                    return e
        return None

    def by_id(self, fid):
        for e in self.entries:
            if e["id"] == fid:
                return e
        return None

    def open_for(self, prop):
        out = []
        for e in self.entries:
            props = e["property"] if isinstance(e["property"], list) else [e["property"]]
            if e["status"] == "open" and prop in props:
                out.append(e)
        return out
