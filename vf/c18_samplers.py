"""C18 sub `samplers`: the coordinate sampler classes of rl4co/envs/common/distribution_utils.py (Cluster, Mixed,
Gaussian_Mixture, Mix_Distribution, Mix_Multi_Distributions) driven DIRECTLY and through
rl4co.envs.common.utils.get_sampler, the way every env generator consumes them: ``sampler.sample((batch, num_loc, 2))``.

Oracle (output alone, no access to the hidden cluster centres):
  * documented shape [batch, num_loc, 2] of the size requested in THAT call, floating point, finite;
  * "Confine the coordinates to range [0, 1]" (Cluster, Mixed, hence Mix_Distribution) - exact, a clamp has no rounding;
    "Scale the points to [0, 1] using min-max scaling" / "Normalize coordinates to range [0, 1]" (Gaussian_Mixture, hence
    Mix_Multi_Distributions) - 1e-6;
  * min-max scaling per instance: every coordinate of a Gaussian_Mixture instance has minimum 0 and maximum 1;
    the (1, 1) kind ("Normalize ... Divide by the max range", "Center the batch in the middle of the [0, 1] range"): per
    instance min + max = 1 in each coordinate and the larger of the two coordinate ranges is 1;
    Mix_Multi_Distributions: every instance is one of the 11 kinds, 10 of which carry one of these two normal forms, so
    the number of instances with neither form is Binomial(batch, 1/11) - its upper tail is asserted at 1e-12;
  * composition (Mixed: "50% nodes sampled from uniform distribution, 50% nodes sampled from gaussian distribution"):
    the number of nodes in the outer frame of width 0.1 of the unit square is stochastically bounded from below by
    Binomial(batch * floor(n/2), 0.36) (uniform nodes alone) and from above by that of the uniform half plus
    Binomial(batch * ceil(n/2), p_max(std, lower, upper)) (a gaussian node around a centre in [lower, upper]^2 lies in the
    frame with probability <= p_max whatever the centre); Cluster: upper bound with all nodes gaussian.  Bernstein tail
    bounds at exp(-32) per test;
  * no node slot left unsampled: with >= 6 instances no node index sits at exactly (0, 0) in every instance (for a
    sampled node that needs both coordinates clamped to 0 in every instance: < 1e-12);
  * instances of one batch are separate draws (not all rows identical);
  * one sampler object called again (other RNG state, other size): same contract for the size of that call, the first
    output is left untouched, a call with the same size is a fresh draw; a third call under the first RNG state
    reproduces the first output (torch RNG + python `random`, which Mix_Multi_Distributions reads);
  * get_sampler(name, ...) returns an object of the class that name stands for, carrying the n_cluster / n_cluster_mix /
    num_modes / cdist handed over (compared when the object exposes an attribute of that name), and ignores unrelated
    keyword arguments (generators forward all their extra kwargs).
"""
import math

import hypothesis.strategies as st
import torch

from .c18_lib import BOXES, Judge, q, repo_call


def seed_all(seed):
    """RNG state of one call as a function of the case: the CPU generator the samplers draw from (the same state
    torch.manual_seed(seed) sets, without its per-call CUDA bookkeeping) and python's `random` (Mix_Multi_Distributions)"""
    import random
    torch.default_generator.manual_seed(seed)
    random.seed(seed)

CLUSTERED = ("cluster", "mixed", "mix_distribution")
MINMAX = ("gaussian_mixture", "mix_multi_distributions")
BASIC = ("uniform", "uniform_cls", "const", "center", "corner", "normal", "gaussian", "exponential", "poisson")
KIND_WEIGHTS = (["cluster"] * 7 + ["mixed"] * 4 + ["mix_distribution"] * 3 + ["gaussian_mixture"] * 2 +
                ["mix_multi_distributions"] + ["basic"])
GM_PAIRS = [[0, 0], [1, 1], [1, 1], [3, 10], [5, 30], [7, 50], [2, 1], [1, 10], [0, 5], [1, 0], [2, 0], [9, 100], [4, 3]]
STDS = [0.035, 0.1, 0.15, 0.2]  # non-default `std` attribute (the classes expose it; 0.07 is what the constructor sets)
FRAME = 0.1
L_TAIL = 32.0  # Bernstein exponent: exp(-32) = 1.3e-14 per test


def cases(tier):
    @st.composite
    def s(draw):
        kind = draw(st.sampled_from(KIND_WEIGHTS))
        c = {"kind": kind, "seed": draw(st.integers(0, 2 ** 31 - 1))}
        if kind == "basic":
            c["name"] = draw(st.sampled_from(BASIC))
            c["route"] = "get_sampler"
        else:
            c["route"] = draw(st.sampled_from(["direct", "direct", "get_sampler"]))
        p = {}
        if kind in ("cluster", "mix_distribution"):
            p["n_cluster"] = draw(st.one_of(st.integers(1, 5), st.integers(2, 8), st.integers(1, 12)))
        if kind in ("mixed", "mix_distribution"):
            p["n_cluster_mix"] = draw(st.one_of(st.integers(1, 3), st.integers(1, 6)))
        if kind == "gaussian_mixture":
            if draw(st.integers(0, 3)) == 0:
                p["num_modes"], p["cdist"] = draw(st.integers(0, 9)), draw(st.sampled_from([0, 1, 2, 10, 30, 50, 100]))
            else:
                p["num_modes"], p["cdist"] = draw(st.sampled_from(GM_PAIRS))
        if kind in ("cluster", "mixed") and draw(st.integers(0, 3)) == 0:
            p["std"] = draw(st.sampled_from(STDS))
        c["p"] = p
        if c["route"] == "direct" and kind != "mix_multi_distributions":
            # constructor called with keywords, positionally, or (1 in 8) without arguments = the documented defaults
            c["ctor"] = draw(st.sampled_from(["kw", "kw", "kw", "pos", "pos", "pos", "pos", "defaults"]))
        if c["route"] == "get_sampler":
            c["val_name"] = draw(st.sampled_from(["loc", "loc", "depot", "dist"]))
            c["box"] = draw(st.sampled_from(BOXES))
            # unrelated keyword arguments forwarded by a generator
            c["extra"] = draw(st.lists(st.sampled_from(["n_cluster", "n_cluster_mix", "num_modes", "cdist", "loc_mean", "loc_std",
                                                        "loc_rate", "foo"]), max_size=3, unique=True))
            if kind == "basic":
                c["const"] = draw(q(0, 1))
                c["mean"], c["sd"], c["rate"] = draw(q(0, 1)), draw(q(0.125, 1)), draw(q(0.5, 4))
        if kind in MINMAX:
            c["B"] = draw(st.one_of(st.integers(1, 4), st.integers(2, 16), st.integers(8, 32)))
            c["n"] = draw(st.one_of(st.integers(1, 12), st.integers(2, 60)))
            c["B2"] = draw(st.one_of(st.none(), st.integers(1, 16)))
            c["n2"] = draw(st.one_of(st.none(), st.integers(2, 40)))
        else:
            big = st.sampled_from([64, 128, 256])
            c["B"] = draw(st.one_of(st.integers(1, 4), st.integers(1, 64), st.integers(33, 64), big, big))
            c["n"] = draw(st.one_of(st.integers(1, 12), st.integers(1, 60), st.integers(13, 60), st.sampled_from([10, 20, 21, 50, 51, 100])))
            c["B2"] = draw(st.one_of(st.none(), st.integers(1, 8), st.integers(1, 64)))
            c["n2"] = draw(st.one_of(st.none(), st.integers(1, 60)))
        return c
    return s()


# --------------------------------------------------------------------------- construction
def _classes():
    from rl4co.envs.common import distribution_utils as du
    return {"cluster": du.Cluster, "mixed": du.Mixed, "gaussian_mixture": du.Gaussian_Mixture,
            "mix_distribution": du.Mix_Distribution, "mix_multi_distributions": du.Mix_Multi_Distributions}


ARGS = {"cluster": ("n_cluster",), "mixed": ("n_cluster_mix",), "gaussian_mixture": ("num_modes", "cdist"),
        "mix_distribution": ("n_cluster", "n_cluster_mix"), "mix_multi_distributions": ()}
CTOR_DEFAULTS = {"n_cluster": 3, "n_cluster_mix": 1, "num_modes": 0, "cdist": 0}  # signatures of the five classes


def effective(case):
    """constructor parameters in force (drawn ones, or the documented defaults for ctor='defaults')"""
    kind, p = case["kind"], case["p"]
    if case.get("ctor") == "defaults":
        return {k: CTOR_DEFAULTS[k] for k in ARGS[kind]}
    return {k: p[k] for k in ARGS[kind]}


def construct(case, ctx):
    from rl4co.envs.common.utils import get_sampler

    kind, p = case["kind"], case["p"]
    sig = f"crash|samplers|construct|{kind}"
    if case["route"] == "direct":
        cls = _classes()[kind]
        names = ARGS[kind]
        how = case.get("ctor", "pos")
        if how == "defaults" or not names:
            return repo_call(ctx, sig, cls)
        if how == "kw":
            return repo_call(ctx, sig, cls, **{k: p[k] for k in names})
        return repo_call(ctx, sig, cls, *[p[k] for k in names])
    lo, hi = case["box"]
    v = case["val_name"]
    kw = {}
    for k in case["extra"]:
        kw[k] = {"n_cluster": 2, "n_cluster_mix": 2, "num_modes": 3, "cdist": 10}.get(k, 0.5)
    if kind != "basic":
        kw.update({k: p[k] for k in ARGS[kind]})
        return repo_call(ctx, sig, get_sampler, v, kind, lo, hi, **kw)
    name = case["name"]
    if name in ("normal", "gaussian"):
        kw.update({f"{v}_mean": case["mean"], f"{v}_std": case["sd"]})
    if name in ("exponential", "poisson"):
        kw[f"{v}_rate"] = case["rate"]
    if name == "const":
        return repo_call(ctx, sig, get_sampler, v, float(case["const"]), lo, hi, **kw)
    if name == "uniform_cls":
        from torch.distributions import Uniform
        return repo_call(ctx, sig, get_sampler, v, Uniform, lo, hi, **kw)
    return repo_call(ctx, sig, get_sampler, v, name, lo, hi, **kw)


# --------------------------------------------------------------------------- probability helpers
def phi(z):
    return 0.5 * math.erfc(-z / math.sqrt(2.0))


def p_frame_gauss(std, lower, upper, w=FRAME):
    """upper bound of P(gaussian node around a centre in [lower, upper]^2 lies in the frame of width w); None = no bound.
    Per coordinate f(c) = Phi((w - c)/std) + Phi((c - 1 + w)/std) is convex on [w, 1 - w]: its maximum over the centre
    range sits at an end point; the two coordinates are combined by the union bound."""
    if not (w <= lower <= upper <= 1 - w) or std <= 0:
        return None
    f = lambda c: phi((w - c) / std) + phi((c - 1 + w) / std)
    return min(1.0, 2 * max(f(lower), f(upper)))


def upper_threshold(mu):
    """P(X >= mu + t) <= exp(-L) for a sum of independent Bernoullis of mean <= mu (Bernstein)"""
    return mu + L_TAIL / 3 + math.sqrt(L_TAIL * L_TAIL / 9 + 2 * L_TAIL * mu)


def lower_threshold(mu):
    """P(X <= mu - t) <= exp(-L) for a sum of independent Bernoullis of mean >= mu"""
    return mu - math.sqrt(2 * L_TAIL * mu)


def binom_tail(nn, k, pr):
    """P(Bin(nn, pr) >= k)"""
    return sum(math.comb(nn, j) * pr ** j * (1 - pr) ** (nn - j) for j in range(k, nn + 1))


# --------------------------------------------------------------------------- judging one output
def centred_form(x, tol=1e-5):
    """[B] rows in the normal form of Gaussian_Mixture._batch_normalize_and_center"""
    lo, hi = x.min(1).values.double(), x.max(1).values.double()
    return ((lo + hi - 1).abs() <= tol).all(-1) & (((hi - lo).max(-1).values - 1).abs() <= tol)


def minmax_form(x, tol=1e-6):
    lo, hi = x.min(1).values.double(), x.max(1).values.double()
    return (lo.abs() <= tol).all(-1) & ((hi - 1).abs() <= tol).all(-1)


def first_row(mask):
    idx = torch.nonzero(~mask)
    return int(idx[0, 0]) if idx.numel() else None


def attrs(obj):
    try:
        a = [float(getattr(obj, k)) for k in ("std", "lower", "upper")]
    except (AttributeError, TypeError, ValueError):
        return None
    return a


def judge(ctx, case, obj, x, B, n, note, flags):
    """contract of one `sample((B, n, 2))` output; returns False when the output cannot be judged further"""
    kind = case["kind"]
    J = Judge(ctx, "samplers", case)
    J.note = note
    eff = effective(case) if kind != "basic" else {}
    if not J.ok(isinstance(x, torch.Tensor) and tuple(x.shape) == (B, n, 2), f"shape|{kind}",
                f"{kind}{eff}.sample(({B}, {n}, 2)) returned shape {tuple(x.shape) if isinstance(x, torch.Tensor) else type(x)}; "
                f"documented / consumed shape is [batch, num_loc, 2] of the requested size"):
        return False
    J.ok(x.dtype.is_floating_point, f"dtype|{kind}", f"{kind}: dtype {x.dtype}, expected floating point")
    if not J.ok(torch.isfinite(x), f"nonfinite|{kind}", f"{kind}{eff}: sample(({B}, {n}, 2)) contains NaN/inf"):
        return False
    if kind == "basic":
        return judge_basic(J, ctx, case, x)
    tol = 0.0 if kind in CLUSTERED else 1e-6
    inside = (x >= -tol) & (x <= 1 + tol)
    J.ok(inside, f"out_of_bounds|{kind}",
         f"{kind}{eff} std={case['p'].get('std', 'default')}: coordinates outside the documented range [0, 1]: min {float(x.min()):.7g} "
         f"max {float(x.max()):.7g}", (lambda: {"first": torch.nonzero(~inside)[0].tolist(), "size": [B, n]}))
    if kind in CLUSTERED:
        if bool(((x == 0) | (x == 1)).any()):
            ctx.event(f"border_hit(coordinate clamped to 0.0 or 1.0)|{kind}")
            flags["border"] = True
        if B >= 6:
            empty = (x == 0).all(-1).all(0)  # [n] node index at exactly (0, 0) in every instance
            J.ok(~empty, f"unsampled_node|{kind}", f"{kind}{eff}: node index {first_row(~empty)} of {n} is exactly (0, 0) in all {B} "
                                                   f"instances: the slot was never sampled")
        frame_tests(J, ctx, case, obj, x, B, n, eff)
    elif kind == "gaussian_mixture":
        m, c = eff["num_modes"], eff["cdist"]
        if m == 0:
            ctx.event("gm_form=uniform")
        elif m == 1 and c == 1:
            ctx.event("gm_form=centred")
            good = centred_form(x)
            J.ok(good, "normal_form|gaussian_mixture|centred",
                 f"Gaussian_Mixture(1, 1): instance {first_row(good)} of {B} is not normalised per instance (each coordinate "
                 f"centred in [0, 1]: min + max = 1; the larger coordinate range = 1): "
                 f"min {x.min(1).values[first_row(good) or 0].tolist()} max {x.max(1).values[first_row(good) or 0].tolist()}")
        else:
            ctx.event("gm_form=minmax")
            good = minmax_form(x)
            J.ok(good, "normal_form|gaussian_mixture|minmax",
                 f"Gaussian_Mixture({m}, {c}): instance {first_row(good)} of {B} is not min-max scaled (per coordinate min 0 / max 1): "
                 f"min {x.min(1).values[first_row(good) or 0].tolist()} max {x.max(1).values[first_row(good) or 0].tolist()}")
    elif kind == "mix_multi_distributions":
        free = int((~centred_form(x)).sum())  # instances in neither normal form: only the uniform kind (1 of 11) may be
        tail = binom_tail(B, free, 1.0 / 11.0)
        ctx.event("mmd_tail_testable" if binom_tail(B, B, 1.0 / 11.0) < 1e-12 else "mmd_batch_too_small_for_tail_test")
        J.ok(tail >= 1e-12, "normal_form|mix_multi_distributions",
             f"Mix_Multi_Distributions: {free} of {B} instances carry neither the min-max nor the centred normal form; only the "
             f"uniform kind (1 of 11 kinds per instance) may: P(Bin({B}, 1/11) >= {free}) = {tail:.3g} < 1e-12")
    # (a min-max scaled instance of 2 points is one of 4 patterns of zeros and ones: no continuous freedom below 3 points)
    if B >= 2 and n >= (3 if kind in MINMAX else 1):
        J.ok(not bool((x == x[:1]).all()), f"identical_instances|{kind}", f"{kind}{eff}: all {B} instances of the batch are identical")
    return True


def frame_tests(J, ctx, case, obj, x, B, n, eff):
    kind = case["kind"]
    if kind not in ("cluster", "mixed"):
        return
    a = attrs(obj)
    if a is None:
        ctx.event("frame_test_skipped(no std/lower/upper attributes)")
        return
    pg = p_frame_gauss(*a)
    if pg is None:
        ctx.event("frame_test_skipped(centre range outside the inner square)")
        return
    N = int(((x < FRAME) | (x > 1 - FRAME)).any(-1).sum())
    pu = 1 - (1 - 2 * FRAME) ** 2  # uniform node
    if kind == "cluster":
        up = upper_threshold(B * n * pg)
        if up < B * n * pu:
            ctx.event("frame_test_with_power|cluster")
        J.ok(N <= up, "composition|cluster|not_gaussian_clusters",
             f"Cluster{eff}: {N} of {B * n} nodes lie in the outer frame of width {FRAME}; gaussian nodes (std {a[0]}) around centres in "
             f"[{a[1]}, {a[2]}]^2 do so with probability <= {pg:.4f} each: bound {up:.1f} at exp(-{L_TAIL:.0f})")
        return
    fl, ce = n // 2, n - n // 2  # '50%' of an odd size: either rounding is accepted
    lo = lower_threshold(B * fl * pu)
    up = upper_threshold(B * (ce * max(pu, pg) + fl * min(pu, pg)))
    if lo > B * n * pg or up < B * n * pu:
        ctx.event("frame_test_with_power|mixed")
    J.ok(N >= lo, "composition|mixed|uniform_half_missing",
         f"Mixed{eff}: only {N} of {B * n} nodes lie in the outer frame of width {FRAME}; the uniform half alone "
         f"({fl} nodes per instance, probability {pu:.2f} each) gives at least {lo:.1f} at exp(-{L_TAIL:.0f})")
    J.ok(N <= up, "composition|mixed|gaussian_half_missing",
         f"Mixed{eff}: {N} of {B * n} nodes lie in the outer frame of width {FRAME}; half uniform (probability {pu:.2f}) plus half "
         f"gaussian (std {a[0]}, probability <= {pg:.4f}) gives at most {up:.1f} at exp(-{L_TAIL:.0f})")


def judge_basic(J, ctx, case, x):
    name = case["name"]
    lo, hi = case["box"]
    if name in ("uniform", "uniform_cls"):
        J.within(x, lo, hi, f"basic:{name}")
    elif name == "const":
        J.ok(x == float(case["const"]), "out_of_bounds|basic:const", f"constant distribution {case['const']} emitted other values")
    elif name == "center":
        J.ok((x.double() - (lo + hi) / 2).abs() <= 1e-6 * max(1.0, abs(lo), abs(hi)), "out_of_bounds|basic:center",
             f"'center' of [{lo}, {hi}] emitted {float(x.flatten()[0])}")
    elif name == "corner":
        t = 1e-6 * max(1.0, abs(lo), abs(hi))
        J.ok(((x - lo).abs() <= t) | ((x - hi).abs() <= t), "out_of_bounds|basic:corner",
             f"'corner' of [{lo}, {hi}]^2 emitted a coordinate that is neither bound: {float(x.flatten()[0])}")
    elif name in ("exponential", "poisson"):
        J.ok(x >= 0, f"out_of_bounds|basic:{name}", f"{name} sample below 0")
    return True


# --------------------------------------------------------------------------- execution
def remainder_class(case, n):
    """does the size split unevenly over the clusters?"""
    kind = case["kind"]
    if kind not in CLUSTERED:
        return False
    eff = effective(case)
    r = False
    if "n_cluster" in eff:
        r = r or n % eff["n_cluster"] != 0
    if "n_cluster_mix" in eff:
        r = r or n % 2 == 1 or (n // 2) % eff["n_cluster_mix"] != 0
    return r


def execute(case, ctx):
    flags = {}
    kind, B, n, seed = case["kind"], case["B"], case["n"], case["seed"]
    p = case["p"]
    eff = effective(case) if kind != "basic" else {}
    B2, n2 = case.get("B2") or B, case.get("n2") or n
    scaling = kind == "mix_multi_distributions" or (kind == "gaussian_mixture" and eff["num_modes"] != 0)
    if scaling and n < 2:
        ctx.exclude("minmax_scaling_single_point")
        return
    label = kind if kind != "basic" else f"basic:{case['name']}"
    ctx.event(f"kind={label}")
    ctx.event(f"route={case['route']}" + (f"/{case['ctor']}" if case.get("ctor") else ""))
    obj = construct(case, ctx)
    if obj is None:
        return
    if case["route"] == "get_sampler" and kind != "basic":
        cls = _classes()[kind]
        ctx.check(isinstance(obj, cls), f"samplers|get_sampler_class|{kind}",
                  f"get_sampler(..., {kind!r}) returned {type(obj).__name__}, not {cls.__name__}")
        inner = {"n_cluster": getattr(obj, "Cluster", None), "n_cluster_mix": getattr(obj, "Mixed", None)} if kind == "mix_distribution" else {}
        for k in ARGS[kind]:
            holder = obj if hasattr(obj, k) else inner.get(k)
            if holder is not None and hasattr(holder, k):
                ctx.event("get_sampler_parameter_compared")
                ctx.check(getattr(holder, k) == p[k], f"samplers|get_sampler_parameter|{kind}",
                          f"get_sampler(..., {kind!r}, {k}={p[k]}) built an object with {k}={getattr(holder, k)}")
    if "std" in p:
        if hasattr(obj, "std"):
            obj.std = p["std"]
            ctx.event("std=non-default")
        else:
            ctx.event("std_attribute_absent(default kept)")
    if kind in CLUSTERED:
        for k, v in eff.items():
            ctx.event(f"{k}" + ("=1" if v == 1 else ">num_loc" if v > n else ""))
    rem = remainder_class(case, n) or remainder_class(case, n2)
    if rem:
        ctx.event(f"uneven_split(num_loc % n_cluster != 0 or odd half)|{kind}")
    ctx.event("batch=" + ("1" if B == 1 else "2-16" if B <= 16 else "17-64" if B <= 64 else ">64"))
    sig = f"crash|samplers|sample|{kind}"
    seed_all(seed)
    x1 = repo_call(ctx, sig, obj.sample, (B, n, 2))
    if x1 is None or not judge(ctx, case, obj, x1, B, n, "first call", flags):
        return
    keep = x1.clone()
    # ---- second call of the same object: other RNG state, possibly another size
    seed_all(seed + 7)
    x2 = repo_call(ctx, sig, obj.sample, (B2, n2, 2))
    if x2 is None or not judge(ctx, case, obj, x2, B2, n2, "second call of the same sampler object", flags):
        return
    ctx.event("second_call=" + ("same_size" if (B2, n2) == (B, n) else "other_size"))
    ctx.check(torch.equal(keep, x1), f"samplers|second_call|first_output_modified|{kind}",
              f"{kind}: the tensor returned by the first call changed when the sampler was called again")
    random_kind = kind != "basic" or case["name"] not in ("const", "center", "corner")
    if (B2, n2) == (B, n) and B * n >= 2 and random_kind and (kind not in MINMAX or n >= 3):
        ctx.check(not torch.equal(x1, x2), f"samplers|second_call|repeats_first_output|{kind}",
                  f"{kind}: a second call under another RNG state returned the first output again")
    # ---- third call under the first RNG state: the output is a function of parameters, size and RNG state only
    seed_all(seed)
    x3 = repo_call(ctx, sig, obj.sample, (B, n, 2))
    if x3 is None:
        return
    ctx.check(isinstance(x3, torch.Tensor) and x3.shape == x1.shape and torch.equal(x1, x3), f"samplers|second_call|not_reproducible|{kind}",
              f"{kind}: a third call under the RNG state of the first call does not reproduce the first output")
    if (kind in CLUSTERED and rem and flags.get("border")) or (kind in MINMAX and scaling and B >= 2 and n >= 3):
        ctx.nontriv()
    ctx.sample({"kind": label, "p": p, "route": case["route"], "B": B, "n": n})
