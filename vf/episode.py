"""Batched, mask-confined episode driver with per-row choice streams (DESIGN §2.2).

A row's behaviour is (mode, stream).  At step t the row's action is chosen among the
True entries of its own mask:
    mode "stream" : feasible[stream[t % L] % len(feasible)]
    mode "first"  : lowest feasible index          mode "last": highest feasible index
    mode "low_if" : action 0 (depot / wait / dummy) whenever it is offered, else stream choice
    mode "low_last": action 0 only when nothing else is offered, else stream choice among the others
All choices are data (lists of ints), so a whole episode shrinks and replays as one value.
"""
import torch

MODES = ["stream", "first", "last", "low_if", "low_last"]


def pick_actions(mask, modes, streams, t):
    """mask [B,N] bool -> actions [B] (long).  Rows with an all-False mask get -1."""
    B, N = mask.shape
    acts = []
    for b in range(B):
        feas = torch.nonzero(mask[b], as_tuple=False).flatten().tolist()
        if not feas:
            acts.append(-1)
            continue
        mode = modes[b]
        s = streams[b]
        c = s[t % len(s)] if s else 0
        if mode == "first":
            a = feas[0]
        elif mode == "last":
            a = feas[-1]
        elif mode == "low_if":
            a = 0 if feas[0] == 0 else feas[c % len(feas)]
        elif mode == "low_last":
            rest = [f for f in feas if f != 0]
            a = rest[c % len(rest)] if rest else 0
        else:
            a = feas[c % len(feas)]
        acts.append(a)
    return torch.tensor(acts, dtype=torch.long)


def row_done(done, B):
    """Reduce a done tensor to [B] bool (MCP emits [B,B]; others [B] or [B,1])."""
    d = done
    if d.dim() == 0:
        return d.reshape(1).expand(B).bool()
    if d.dim() >= 2:
        if d.shape[0] == B and d.dim() == 2 and d.shape[1] == B and B > 1:
            # MCP: done[i, j] = (i_j >= k_i)-style broadcast; use the diagonal
            return torch.diagonal(d).bool()
        d = d.reshape(B, -1).all(-1)
    return d.bool()


def flat_mask(mask, B):
    return mask.reshape(B, -1).bool()


class Episode:
    """Record of one batched episode."""

    def __init__(self):
        self.masks = []  # per step: mask offered [B,N] (before the action of that step)
        self.actions = []  # per step: [B]
        self.dones = []  # per step (after the step): [B] bool
        self.states = []  # optional snapshots (after each step)
        self.td0 = None  # reset state
        self.td = None  # final state
        self.cap_hit = False
        self.dead_end = None  # (step, row) if an unfinished batch offered a row no action
        self.done_regressed = None  # (step, row)

    @property
    def T(self):
        return len(self.actions)

    def actions_tensor(self):
        return torch.stack(self.actions, 1) if self.actions else torch.zeros((0, 0), dtype=torch.long)

    def finish_step(self, b):
        """Number of steps after which row b was first done (None if never)."""
        for t, d in enumerate(self.dones):
            if bool(d[b]):
                return t + 1
        return None


def seed_reset(env, td_instance):
    """Resets that draw from the global torch RNG (MDCPDPEnv(start_mode="random"): the start depot) are made a
    deterministic function of the instance handed to reset: the RNG is seeded from the instance's coordinates, so an
    episode replays from its case alone whoever calls the driver (C04 calls it directly for its solo re-runs).  A batch
    and a one-row slice of it still get different draws (one randint call per reset, of the batch's size): on the
    pinned tree the draw only shows in td0["current_depot"], which no differential check compares."""
    if getattr(env, "start_mode", None) == "random" and "locs" in td_instance.keys():
        x = td_instance["locs"].double()
        torch.manual_seed(int((x * torch.arange(1, x.numel() + 1, dtype=torch.float64).reshape(x.shape)).sum().item() * 4096) % (2 ** 31 - 1))


def run_episode(env, td_instance, modes, streams, cap, keep_states=False, reset=True):
    """Reset a clone of td_instance (reset writes into its argument) and drive the batch until
    done.all() or `cap` steps.  Never pads beyond the step at which the slowest row finishes."""
    ep = Episode()
    if reset:
        seed_reset(env, td_instance)
    td = env.reset(td_instance.clone()) if reset else td_instance.clone()
    B = td.batch_size[0]
    ep.td0 = td.clone()
    done = row_done(td["done"], B) if "done" in td.keys() else torch.zeros(B, dtype=torch.bool)
    t = 0
    while not bool(done.all()):
        if t >= cap:
            ep.cap_hit = True
            break
        mask = flat_mask(td["action_mask"], B)
        acts = pick_actions(mask, modes, streams, t)
        if bool((acts < 0).any()):
            ep.dead_end = (t, int(torch.nonzero(acts < 0)[0]))
            ep.masks.append(mask.clone())
            break
        ep.masks.append(mask.clone())
        ep.actions.append(acts.clone())
        td = td.clone()
        td.set("action", acts)
        td = env.step(td)["next"]
        new_done = row_done(td["done"], B)
        if ep.done_regressed is None and bool((done & ~new_done).any()):
            ep.done_regressed = (t, int(torch.nonzero(done & ~new_done)[0]))
        done = new_done
        ep.dones.append(done.clone())
        if keep_states:
            ep.states.append(td.clone())
        t += 1
    ep.td = td
    return ep


def run_episode_torchrl(env, td_instance, modes, streams, cap, keep_states=False, probe=False):
    """Same driver in TorchRL stepping mode (`env._torchrl_mode = True`): `env.step(td)` writes the successor state
    under td["next"] and leaves the state held by `td` itself untouched, so a caller may evaluate several actions from
    one state (look-ahead / tree search) before committing to one.  With `probe`, at every step a second mask-admitted
    action (the row's highest feasible index, or its lowest if that is the committed one) is evaluated from the same
    td first and its result discarded; the committed episode still consists of mask-admitted actions only."""
    ep = Episode()
    seed_reset(env, td_instance)
    td = env.reset(td_instance.clone())
    B = td.batch_size[0]
    ep.td0 = td.clone()
    done = row_done(td["done"], B) if "done" in td.keys() else torch.zeros(B, dtype=torch.bool)
    t = 0
    while not bool(done.all()):
        if t >= cap:
            ep.cap_hit = True
            break
        mask = flat_mask(td["action_mask"], B)
        acts = pick_actions(mask, modes, streams, t)
        if bool((acts < 0).any()):
            ep.dead_end = (t, int(torch.nonzero(acts < 0)[0]))
            ep.masks.append(mask.clone())
            break
        ep.masks.append(mask.clone())
        ep.actions.append(acts.clone())
        if probe:
            hi = pick_actions(mask, ["last"] * B, streams, t)
            lo = pick_actions(mask, ["first"] * B, streams, t)
            td.set("action", torch.where(hi == acts, lo, hi))
            env.step(td)  # evaluated and discarded
            td = td.exclude("next")  # drop the probed successor (same state tensors, no copy)
        td.set("action", acts)
        td = env.step(td)["next"]
        if "next" in td.keys():  # what torchrl's step_mdp does: the successor becomes the root, no nesting
            td = td.exclude("next")
        new_done = row_done(td["done"], B)
        if ep.done_regressed is None and bool((done & ~new_done).any()):
            ep.done_regressed = (t, int(torch.nonzero(done & ~new_done)[0]))
        done = new_done
        ep.dones.append(done.clone())
        if keep_states:
            ep.states.append(td.clone())
        t += 1
    ep.td = td
    return ep
