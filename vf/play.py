"""Shared: turn an episode case into (spec, env, instance, episode) and judge rows."""
import torch

from .envs import SPECS, py_instance
from .episode import run_episode_torchrl, run_episode
from .oracles import JUDGES

# constraints that are exact on lattice instances (k/8 demands and prizes): tolerance 0 there
DISCRETE = {"capacity", "capacity_linehaul", "capacity_backhaul", "min_prize", "unserved_demand"}
# artefacts of post-finish padding (extra depot visits), not constraints of the executed solution
PADDING_ARTEFACTS = {"too_many_technicians", "too_many_agents"}


def tau_for(case):
    name, cfg = case["env"], case["cfg"]
    if name == "cvrptw" and not cfg.get("scale"):
        return 2e-3  # unscaled times/distances are O(100)
    return 1e-4  # unit-square lengths, normalised loads, scaled (max_time = 1) CVRPTW times - generator or hand-built


# MCP reports `done` with shape [B, B] (broadcast of i [B] against n_sets_to_choose [B, 1]); TorchRL-mode stepping
# reshapes done to [B, 1] and cannot digest it on the pinned tree - MCP is driven in the default mode only
NO_TORCHRL = ("mcp",)


def torchrl_env(spec, cfg):
    from .envs import cached_env

    def mk(c):
        e = spec.build(c)
        e._torchrl_mode = True  # same effect as the constructor argument `_torchrl_mode=True`
        return e
    return cached_env(spec.name + "|torchrl", cfg, mk)


def play(case, ctx, keep_states=False, cap_factor=1):
    spec = SPECS[case["env"]]
    env_cfg = case["cfg"]
    if case.get("env_shape"):
        # the env object is configured for another size than the instances it is given (see vf.envs.ENV_SHAPE_FREE)
        env_cfg = dict(case["cfg"], **case["env_shape"])
        ctx.event("env_built_for_other_size")
    env = ctx.guard(spec.env, env_cfg, what=f"build_env|{case['env']}")
    inst = ctx.guard(spec.instance, case, what=f"instance|{case['env']}")
    B = inst.batch_size[0]
    if case.get("seed", 0) % 3 == 0 and case.get("src") == "gen":
        # sequential reuse of one env object: a previous reset with another batch size must not leak into this episode
        b0 = 1 + (case["seed"] // 3) % 4
        if b0 != B:
            torch.manual_seed(case["seed"])
            ctx.guard(lambda: env.reset(env.generator(batch_size=[b0])), what=f"warmup_reset|{case['env']}")
            ctx.event("warmup_reset_other_batch_size")
    rows = case["rows"]
    modes = [rows[b % len(rows)]["mode"] for b in range(B)]
    streams = [rows[b % len(rows)]["stream"] for b in range(B)]
    insts = [py_instance(case["env"], inst[b]) for b in range(B)]
    cap = max(spec.bound(case["cfg"], insts[b]) for b in range(B)) * cap_factor + 3
    stepping = case.get("stepping", "default")
    if stepping != "default" and case["env"] not in NO_TORCHRL:
        # TorchRL stepping mode (env.step(td) writes td["next"] and leaves the state in td untouched), optionally with
        # a second mask-admitted action evaluated from the same state and discarded before every committed step
        env = ctx.guard(torchrl_env, spec, env_cfg, what=f"build_env|{case['env']}")
        ctx.event(f"stepping:{stepping}")
        ep = ctx.guard(run_episode_torchrl, env, inst, modes, streams, cap, keep_states, stepping == "torchrl_probe",
                       what=f"episode_{stepping}|{case['env']}")
    else:
        ep = ctx.guard(run_episode, env, inst, modes, streams, cap, keep_states, what=f"episode|{case['env']}")
    if case["env"] == "mdcpdp" and ep.td0 is not None and "current_depot" in ep.td0.keys():
        # the depot the reset state names as the current one (drawn at reset under start_mode="random"): handed to
        # the oracle together with the instance (vf.oracles.routing.judge_mdcpdp)
        for b in range(B):
            insts[b]["start_depot"] = int(ep.td0["current_depot"][b].reshape(-1)[0])
    return spec, env, inst, insts, ep


def judge_row(case, spec, inst_row, actions):
    return JUDGES[case["env"]](inst_row, actions, spec.judge_cfg(case["cfg"]))


def violated(case, verdict, padded=False):
    tau = tau_for(case)
    out = []
    for c, s in verdict.viol:
        if padded and c in PADDING_ARTEFACTS:
            continue
        t = 0.0 if (case["src"] == "lat" and c in DISCRETE) else tau
        if s < -t:
            out.append((c, s))
    return out


def constraint_bit(ep, b, has_depot):
    """True if at some step before row b finished the mask excluded a not-yet-visited non-depot node."""
    fin = ep.finish_step(b) or ep.T
    seen = set()
    for t in range(fin):
        m = ep.masks[t][b]
        for j in range(1 if has_depot else 0, m.shape[0]):
            if not bool(m[j]) and j not in seen:
                return True
        seen.add(int(ep.actions[t][b]))
    return False


def stepwise_reward_check(ctx, name, sl, ep, b, makespan, det):
    """FJSPEnv / JSSPEnv(stepwise_reward=True): FJSPEnv._step documents the step reward as "the change in the calculated
    lower bounds" - reward_t = -(max_o LB_t(o) - max_o LB_{t-1}(o)) with LB_0 = td0["lbs"] and LB(o) = the actual finish
    time once o is scheduled - so the rewards of a completed episode telescope to -(makespan - max_o LB_0(o)), whatever
    waits and post-finish padding steps it contains.  `makespan` comes from the oracle (instance + actions), the initial
    bound is read from the reset state.  Needs an episode recorded with keep_states.  Tolerance: policy of DESIGN 2.4 on
    the float32 terms (step rewards, makespan, initial bound)."""
    rs = [float(s["reward"].reshape(len(ep.dones[0]), -1)[b, 0]) for s in ep.states]
    lb0 = float(ep.td0["lbs"][b].double().max())
    total, want = sum(rs), -(float(makespan) - lb0)
    terms = sum(abs(r) for r in rs) + abs(float(makespan)) + abs(lb0)
    if abs(total - want) > 1e-5 * (1.0 + terms):
        ctx.violation(f"{name}|{sl}|stepwise_rewards_do_not_telescope",
                      f"row {b}: step rewards sum to {total}, -(makespan {makespan} - initial lower bound {lb0}) = {want}",
                      {**det, "step_rewards": rs, "initial_lower_bound": lb0})
    if any(r != 0 for r in rs):
        ctx.event("stepwise:row_with_nonzero_step_rewards")
    return rs
