#!/bin/bash
# Offline setup: make sure hypothesis is importable next to the repository's packages, smoke-test imports.
set -e
cd "$(dirname "${BASH_SOURCE[0]}")"
PY="${VF_PYTHON:-/venv/bin/python}"
if ! "$PY" -c "import hypothesis" 2>/dev/null; then
  /venv/bin/pip install --no-index --find-links /opt/veriftools/wheels hypothesis
fi
chmod +x ./check
mkdir -p evidence replays/found
PYTHONPATH="${VF_REPO:-/repo}:$PWD" "$PY" -c "import hypothesis, torch, rl4co, vf.runner; print('setup ok: hypothesis', hypothesis.__version__, 'torch', torch.__version__)"
