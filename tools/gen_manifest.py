#!/venv/bin/python
"""Regenerate MANIFEST.json from vf/props/*.py + tools/manifest_meta.json."""
import json, os, sys
HERE = os.path.dirname(os.path.dirname(os.path.abspath(__file__)))
meta = json.load(open(os.path.join(HERE, "tools", "manifest_meta.json")))
props = [json.loads(l)["id"] for l in open(os.path.join(HERE, "properties.jsonl"))]
checks, na = [], []
for pid in props:
    m = meta["properties"].get(pid, {})
    have = os.path.exists(os.path.join(HERE, "vf", "props", pid.lower() + ".py")) and "text" in m and not m.get("disabled")
    if not have:
        na.append({"property_id": pid, "reason": m.get("na_reason", "check not built yet in this round; design in DESIGN.md section 3")})
        continue
    checks.append({
        "property_id": pid,
        "quick_cmd": f"./check {pid} --tier quick",
        "thorough_cmd": f"./check {pid} --tier thorough",
        "evidence_file": f"evidence/{pid}.json",
        "replay_cmd_template": f"./check {pid} --replay {{path}}",
        "engine": m.get("engine", "hypothesis"),
        "level_claimed": {"category": "exploration", "text": m["text"], "design_ref": f"DESIGN.md section 3 / {pid}"},
        "level_note": m["note"],
        "technique": m["technique"],
    })
man = {
    "version": 1,
    "setup_cmd": "./setup.sh",
    "hooks": meta["hooks"],
    "engines": meta["engines"],
    "checks": checks,
    "not_applicable": na,
    "notes": meta["notes"],
}
json.dump(man, open(os.path.join(HERE, "MANIFEST.json"), "w"), indent=1)
print(f"{len(checks)} checks, {len(na)} not_applicable")
