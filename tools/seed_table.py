#!/venv/bin/python
"""Print the markdown table of seeded changes from seeded/*/meta.json (for DESIGN.md section 8.2)."""
import glob, json, os
rows = []
for d in sorted(glob.glob(os.path.join(os.path.dirname(os.path.dirname(os.path.abspath(__file__))), "seeded", "*"))):
    m = json.load(open(os.path.join(d, "meta.json")))
    first = "missed" if m["note"].startswith("missed") else "caught"
    s = (m["summary"] or "").replace("|", "\\|").replace("\n", " ")
    n = (m["needs"] or "")
    n = n if isinstance(n, str) else json.dumps(n)
    n = n.replace("|", "\\|").replace("\n", " ")
    print(f"| {os.path.basename(d)} | {s[:230]} | {n[:200]} | {first} | {', '.join(m['detected_by'])}: `{m['first_signature'][:60]}` | {m['note'][:260] if first == 'missed' else ''} |")
