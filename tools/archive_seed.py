#!/venv/bin/python
"""tools/archive_seed.py <Cxx> <A|B> <detected_by: comma list or 'MISSED'> <first signature> [note]"""
import json, os, shutil, sys
pid, X, det, sig = sys.argv[1:5]
note = sys.argv[5] if len(sys.argv) > 5 else ""
src = f"{os.environ.get('SEED_BASE', '/tmp/seed')}/{pid}/_seeded"
dst = f"/verif/seeded/{pid}-{X}"
os.makedirs(dst, exist_ok=True)
shutil.copy(f"{src}/{X}.patch", f"{dst}/patch.diff")
shutil.copy(f"{src}/{X}_demo.py", f"{dst}/demo.py")
m = json.load(open(f"{src}/{X}_meta.json"))
meta = {
    "property": pid, "summary": m.get("summary"), "needs": m.get("needs"), "files": m.get("files"),
    "author": "fresh sub-agent given only the property text and a scratch worktree of /repo (nothing from /verif)",
    "author_tests_run": m.get("tests_run"),
    "confirmed_by_lead": "tools/seedcheck.sh: demo.py exits 0 on a clean worktree of /repo HEAD and non-zero with patch.diff applied",
    "ran": f"tools/seedcheck.sh <scratch>/{pid}/_seeded {X} {det.replace(',', ' ')}  (= ./check <id> --tier quick with VF_REPO pointing at the patched scratch worktree)",
    "detected_by": [] if det == "MISSED" else det.split(","),
    "first_signature": sig, "note": note,
}
json.dump(meta, open(f"{dst}/meta.json", "w"), indent=1)
print(dst)
