#!/bin/bash
# usage: tools/seedcheck.sh <seed-dir> <X: A|B> <check ids...>
# Verifies a seeded change: demo passes on clean HEAD, fails with the patch; then runs the given checks (quick) against it.
sd="$1"; X="$2"; shift 2
WT="/tmp/vf-seed-$$"
git -C /repo worktree add --detach -q "$WT" HEAD || exit 3
trap 'git -C /repo worktree remove --force "$WT" >/dev/null 2>&1; rm -rf /tmp/vf-ev-seed-$$' EXIT
(cd "$WT" && PYTHONPATH="$WT" timeout 600 /venv/bin/python "$sd/${X}_demo.py" >/tmp/vf-seed-demo-clean.log 2>&1); echo "demo_on_clean_exit=$?"
git -C "$WT" apply "$sd/$X.patch" || { echo "PATCH-FAILED"; exit 3; }
git -C "$WT" diff --stat | tail -1
(cd "$WT" && PYTHONPATH="$WT" timeout 600 /venv/bin/python "$sd/${X}_demo.py" >/tmp/vf-seed-demo-patched.log 2>&1); echo "demo_on_patched_exit=$?"
for c in "$@"; do
  VF_REPO="$WT" VF_EVIDENCE_DIR="/tmp/vf-ev-seed-$$" "$(dirname "$0")/../check" "$c" --tier quick 2>&1 | grep -E "VIOLATION|sig=|HARNESS|^\[C" | cut -c1-220
done
