#!/venv/bin/python
"""tools/to_corpus.py <replays/found/file.json> <corpus-name> <finding-id> [expect]"""
import json, sys, os
src, name, fid = sys.argv[1:4]
expect = sys.argv[4] if len(sys.argv) > 4 else "pass"
d = json.load(open(src))
out = {"property": d["property"], "sub": d["sub"], "expect": expect, "finding": fid, "sig_when_failing": d["sig"],
       "msg_when_failing": d["msg"][:300], "case": d["case"]}
path = os.path.join(os.path.dirname(os.path.dirname(os.path.abspath(__file__))), "replays", "corpus", f"{d['property']}-{name}.json")
json.dump(out, open(path, "w"), indent=1)
print(path)
