#!/bin/bash
# usage: tools/mutant.sh <name> <patch-file|-> <check args...>
# Creates a scratch worktree of /repo (HEAD + working tree state is HEAD), applies the patch, runs ./check against
# it with evidence redirected, removes the worktree.  Patch "-" = read python snippet from $MUT_PY that edits files in cwd.
name="$1"; patch="$2"; shift 2
WT="/tmp/vf-mut-$name-$$"
git -C /repo worktree add --detach -q "$WT" HEAD || exit 3
trap 'git -C /repo worktree remove --force "$WT" >/dev/null 2>&1; rm -rf "/tmp/vf-ev-$name-$$"' EXIT
if [ "$patch" = "-" ]; then
  (cd "$WT" && /venv/bin/python -c "$MUT_PY") || { echo "MUTATION-FAILED"; exit 3; }
else
  git -C "$WT" apply "$patch" || { echo "PATCH-FAILED"; exit 3; }
fi
git -C "$WT" diff --stat | tail -1
VF_REPO="$WT" VF_EVIDENCE_DIR="/tmp/vf-ev-$name-$$" "$(dirname "$0")/../check" "$@"
echo "exit=$?"
